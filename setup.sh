#!/bin/bash
# Builds the verification environment offline: an overlay venv on /venv with z3, cvc5 and
# CrossHair from the local wheelhouse.  Idempotent.
set -e
cd /verif
if [ ! -x .venv/bin/python ] || ! .venv/bin/python -c "import z3, crosshair" 2>/dev/null; then
  rm -rf .venv
  /venv/bin/python -m venv .venv
  SP=$(.venv/bin/python -c "import sysconfig; print(sysconfig.get_paths()['purelib'])")
  echo "import site; site.addsitedir('/venv/lib/python3.12/site-packages')" > "$SP/_overlay.pth"
  PIP_NO_INDEX=1 .venv/bin/pip install -q --no-index --find-links /opt/veriftools/wheels crosshair-tool z3-solver cvc5
fi
.venv/bin/python -c "import z3, crosshair; print('bearverif env ok: z3', z3.get_version_string())"
