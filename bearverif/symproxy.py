"""Symbolic execution of the *real* ``BeartypeForwardRefMeta.__instancecheck__`` (DESIGN §8.2).

A string annotation naming something that is not a plain class yet at decoration time becomes a
forward-reference proxy; the generated checker then calls ``isinstance(pith, proxy)``, i.e. the
proxy metaclass' ``__instancecheck__``.  For a referent that is a plain class the universe's
isinstance table answers (it asks the real method on sample instances).  For a referent that is a
PEP hint (user generic over a parameterised container, alias of a container hint) the answer depends
on the *contents* of the object, so the method's own source is executed here statement by statement
on the symbolic object:

* everything that only touches concrete values (the resolved referent, helper predicates such as
  ``is_hint_pep``, attribute reads, ``is`` tests, local imports) is evaluated concretely by calling
  the real code;
* ``isinstance(obj, <class>)`` goes to the universe;
* ``is_bearable(obj, hint, ...)`` is replaced by the tester beartype really generates for ``hint``
  (captured now), translated on the same object term with a draw of its own.

The source is read from the imported beartype on every run, so a change to that method changes
the encoding.
"""
from __future__ import annotations
import ast
import inspect
import textwrap
import z3

from .sym import (Ctx, SideCond, VBool, VConc, VObj, VBoundMethod, AND, translate_tester, Unsupported)
from .symstmt import StmtEvaluator


def proxy_metaclass(C):
    """The forward-reference metaclass of C if C is a forward-reference proxy, else None."""
    if not isinstance(C, type):
        return None
    for k in type(C).__mro__:
        if 'BeartypeForwardRef' in k.__name__ and '__instancecheck__' in k.__dict__:
            return k
    return None


def is_deep(C):
    """A proxy whose referent is resolvable and is *not* a plain non-PEP class."""
    if proxy_metaclass(C) is None:
        return False
    try:
        ref = C.__resolved_hint_beartype__
    except Exception:
        return False                     # unresolvable: the ordinary path reports the raise
    from beartype._util.hint.pep.utilpeptest import is_hint_pep
    return not (isinstance(ref, type) and not is_hint_pep(ref))


class _ProxyEvaluator(StmtEvaluator):
    """StmtEvaluator widened by what hand-written (not generated) code needs."""

    def e_Attribute(self, node, pc):
        recv = self.eval(node.value, pc)
        if isinstance(recv, VConc):
            return VConc(getattr(recv.v, node.attr))
        return VBoundMethod(recv, node.attr)

    def s_ImportFrom(self, st, pc):
        mod = __import__(st.module, fromlist=[a.name for a in st.names], level=st.level)
        for a in st.names:
            self.c.env[a.asname or a.name] = (VConc(getattr(mod, a.name)), z3.BoolVal(True))
        return pc

    def s_Import(self, st, pc):
        for a in st.names:
            self.c.env[a.asname or a.name.split('.')[0]] = (VConc(__import__(a.name)), z3.BoolVal(True))
        return pc

    def call(self, f, args, kwargs, pc, node):
        if isinstance(f, VConc):
            fn = f.v
            name = getattr(fn, '__name__', '')
            if name == 'is_bearable' and getattr(fn, '__module__', '').startswith('beartype.door'):
                return VBool(self._is_bearable(args, kwargs, pc, node))
            if fn is not isinstance and fn is not issubclass and \
                    all(isinstance(a, VConc) for a in args) and all(isinstance(v, VConc) for v in kwargs.values()):
                # helper on concrete values only: run the real code
                return VConc(fn(*[a.v for a in args], **{k: v.v for k, v in kwargs.items()}))
        return super().call(f, args, kwargs, pc, node)

    def _is_bearable(self, args, kwargs, pc, node):
        from .capture import capture_door
        from beartype import BeartypeConf
        names = ['obj', 'hint']
        bound = dict(zip(names, args))
        bound.update(kwargs)
        o, h = bound.get('obj'), bound.get('hint')
        conf = bound.get('conf')
        if not isinstance(o, VObj) or not isinstance(h, VConc):
            raise Unsupported('is_bearable() call shape inside __instancecheck__')
        conf = conf.v if isinstance(conf, VConc) else BeartypeConf()
        tester, _raiser = capture_door(h.v, conf)
        if tester is None:
            return z3.BoolVal(True)
        c = self.c
        c.fresh += 1
        r2 = z3.Int(f'proxydraw{c.fresh}_{id(c) % 100000}')
        c.extra += [r2 >= 0, r2 < 2 ** 32]
        c.own_draws = getattr(c, 'own_draws', 0) + 1
        res = translate_tester(tester, self.U, o.t, r2)
        c.extra += list(res.extra)
        c.side += [SideCond(sc.kind, AND(pc, sc.cond), sc.where) for sc in res.side]
        return res.ret


_SRC = {}


def instancecheck_formula(parent_ctx, C, t, pc):
    """z3 Bool for ``isinstance(t, C)`` obtained by executing the metaclass' real method source."""
    meta = proxy_metaclass(C)
    fn_obj = meta.__dict__['__instancecheck__']
    if fn_obj not in _SRC:
        src = textwrap.dedent(inspect.getsource(fn_obj))
        _SRC[fn_obj] = ast.parse(src).body[0]
    fn = _SRC[fn_obj]
    ctx = Ctx(parent_ctx.U, dict(fn_obj.__globals__), parent_ctx.draw)
    ctx.fresh = parent_ctx.fresh + 1000
    ev = _ProxyEvaluator(ctx)
    params = [a.arg for a in fn.args.args]
    ctx.env[params[0]] = (VConc(C), z3.BoolVal(True))
    ctx.env[params[1]] = (VObj(t), z3.BoolVal(True))
    final = ev.exec_block(fn.body, z3.BoolVal(True))
    rets = []
    for e in ev.trace:
        if e.kind == 'return':
            rets.append(AND(e.pc, ev.truth(e.data['value'])))
        elif e.kind == 'raise':
            parent_ctx.side.append(SideCond('isinstance_raises', AND(pc, e.pc), '__instancecheck__ raises'))
    parent_ctx.extra += list(ctx.extra)
    parent_ctx.side += [SideCond(sc.kind, AND(pc, sc.cond), sc.where) for sc in ctx.side]
    parent_ctx.own_draws = getattr(parent_ctx, 'own_draws', 0) + getattr(ctx, 'own_draws', 0)
    parent_ctx.fresh += 1
    return z3.Or(rets) if rets else z3.BoolVal(False)
