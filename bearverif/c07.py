"""C07 — string and postponed annotations are checked exactly like evaluated ones (Engine G; partial).

For each (hint source text) x (placement) x (form) a small module is written and imported with the
real decorator; the wrappers beartype generates are captured, forward-reference proxies are resolved
through their real ``__instancecheck__``, and the solver shows

    guard_form(x, r) xor guard_evaluated(x, r)   unsat        (parameter and return)

for all objects and draws.  Placements and definition orders are enumerated (and said to be).
"""
from __future__ import annotations
import importlib.util
import os
import sys
import time
import traceback
import z3

from . import refsem
from .capture import recording, install
from .core import Generated, Encoding, Discharger
from .engine_g import CaseOut, oblige
from .universe import Unsupported

ROOT = os.path.dirname(os.path.dirname(os.path.abspath(__file__)))
BUILD = os.path.join(ROOT, 'build', 'c07')

HINTS = [
    'int', 'UA', 'Optional[UA]', 'List[int]', 'List[UA]', 'Dict[str, List[UA]]', 'Tuple[int, ...]',
    'Tuple[UA, int]', 'Union[int, UA]', 'Set[UA]', 'Sequence[Optional[UA]]', 'Mapping[str, UA]',
    'Literal["a", 1]', 'Type[UA]', 'Iterable[UA]', 'list[UA] | None', 'Deque[UA]', 'FrozenSet[int]',
    'Annotated[int, IsEqual[1]]', 'UProto',
]
# hints mentioning LATER are written with a name that is bound only after the definition
LATER_HINTS = ['LATER', 'Optional[LATER]', 'List[LATER]', 'LATERG[int]', 'Dict[str, LATER]', 'Union[int, LATER]', 'Tuple[LATER, ...]',
               'Type[LATER]', 'Sequence[List[LATER]]', 'Optional[LATERG[int]]', 'List[LATERG[UA]]', 'LATERG[LATER]',
               'LATERL', 'Optional[LATERL]', 'Dict[str, LATERL]', 'List[LATERL]']
# LATERL: a name bound after the definition to a user class deriving from a *parameterised* container
# (class UIntList(List[int]), metaclass type): right class with wrong items must still be rejected
# LATERG: a *generic* class bound after the definition and subscripted inside the string ('LaterG[int]')

PLACEMENTS = ['module', 'method', 'nested_method', 'closure', 'closure_in_method', 'class_attr', 'class_nested_attr',
              'pep695_method', 'pep695_nested', 'pep695_func']
# pep695_*: the annotation mentions a PEP 695 type parameter TP (bound: UA) of the decorated generic class -- from a
# method of that class, from a method of a class nested in it -- or of a decorated generic function
P695_HINTS = ['TP', 'List[TP]', 'Optional[TP]', 'Dict[str, TP]', 'Tuple[TP, int]']
# class_attr / class_nested_attr: @beartype decorates the (outer) class and the annotation names an
# attribute of the class body that defines the method (for the nested variant the outer class binds
# the same name differently)
FORMS = ['string', 'future', 'later_string', 'later_future']

HEADER = '''{future}
from typing import *
from beartype import beartype
from beartype.vale import IsEqual
from bearverif.userclasses import UA, UB, UC, UProto, UGenList, UIntList
_T = TypeVar('_T')
CALLS = {{}}
'''


PROBE_ARG = {
    'LATER': 'UA()', 'Optional[LATER]': 'UA()', 'List[LATER]': '[UA()]', 'Dict[str, LATER]': '{"a": UA()}',
    'Union[int, LATER]': 'UA()', 'Tuple[LATER, ...]': '(UA(),)', 'Type[LATER]': 'UA', 'Sequence[List[LATER]]': '[[UA()]]',
    'LATERG[int]': 'UGenList([1])', 'Optional[LATERG[int]]': 'UGenList([1])', 'List[LATERG[UA]]': '[UGenList([UA()])]',
    'LATERG[LATER]': 'UGenList([UA()])',
    'LATERL': 'UIntList([1])', 'Optional[LATERL]': 'UIntList([1])', 'Dict[str, LATERL]': '{"a": UIntList([1])}', 'List[LATERL]': '[UIntList([1])]',
}


def _indent(block, n):
    pad = ' ' * n
    return ''.join(pad + l + '\n' for l in block.strip('\n').split('\n'))


def module_source(hint, placement, form):
    """Returns (source, has_self).  'Later' is a real class defined in the same scope -- after the
    decorated callable for the later_* forms, before it for the evaluated form -- with UA registered
    as a virtual subclass so that the object universe contains instances of it."""
    future = 'from __future__ import annotations' if form in ('future', 'later_future') else ''
    later = form.startswith('later')
    uses_later = 'LATER' in hint
    text = hint.replace('LATERG', 'LaterG').replace('LATERL', 'LaterL').replace('LATER', 'Later')
    if form == 'evaluated':
        ann = text
    elif form in ('string', 'later_string'):
        ann = repr(text)
    else:
        ann = text
    define = 'class Later(_ABC):\n    pass\nLater.register(UA)'
    if 'LATERL' in hint:
        define += '\nLaterL = UIntList'
    if 'LATERG' in hint:
        define += '\nclass LaterG(_ABC, Generic[_T]):\n    pass\nLaterG.register(UGenList)'
    before = define if (uses_later and not later) else ''
    after = define if (uses_later and later) else ''
    arg = PROBE_ARG.get(hint, 'UA()')
    probe = ('try:\n    {call}\n    CALLS["before"] = "no exception"\n'
             'except Exception as e:\n    CALLS["before"] = type(e).__mro__')
    src = HEADER.format(future=future) + 'from abc import ABC as _ABC\n'
    if placement == 'module':
        src += (before + '\n' if before else '')
        src += f'@beartype\ndef f(x: {ann}) -> {ann}:\n    return x\n'
        if after:
            src += probe.format(call=f'f({arg})') + '\n' + after + '\n'
        src += 'TARGET = f\n'
        return src, False
    if placement == 'method':
        src += 'class K:\n'
        src += _indent(before, 4) if before else ''
        src += f'    @beartype\n    def m(self, x: {ann}) -> {ann}:\n        return x\n'
        src += _indent(after, 4) if after else ''
        src += 'TARGET = K.m\n'
        return src, True
    if placement == 'nested_method':
        src += 'class K:\n    class N:\n'
        src += _indent(before, 8) if before else ''
        src += f'        @beartype\n        def m(self, x: {ann}) -> {ann}:\n            return x\n'
        src += _indent(after, 8) if after else ''
        src += 'TARGET = K.N.m\n'
        return src, True
    if placement == 'closure':
        src += 'def outer():\n'
        src += _indent(before, 4) if before else ''
        src += f'    @beartype\n    def f(x: {ann}) -> {ann}:\n        return x\n'
        if after:
            src += _indent(probe.format(call=f'f({arg})'), 4) + _indent(after, 4)
        src += '    return f\nTARGET = outer()\n'
        return src, False
    if placement == 'closure_in_method':
        src += 'class K:\n    def mk(self):\n'
        src += _indent(before, 8) if before else ''
        src += f'        @beartype\n        def f(x: {ann}) -> {ann}:\n            return x\n'
        src += _indent(after, 8) if after else ''
        src += '        return f\nTARGET = K().mk()\n'
        return src, False
    if placement.startswith('pep695'):
        ann695 = ann.replace('TP', 'T')
        if placement == 'pep695_method':
            src += f'@beartype\nclass G[T: UA]:\n    def m(self, x: {ann695}) -> {ann695}:\n        return x\nTARGET = G.m\n'
            return src, True
        if placement == 'pep695_nested':
            src += (f'@beartype\nclass G[T: UA]:\n    class N:\n        def m(self, x: {ann695}) -> {ann695}:\n            return x\n'
                    f'TARGET = G.N.m\n')
            return src, True
        src += f'@beartype\ndef f[T: UA](x: {ann695}) -> {ann695}:\n    return x\nTARGET = f\n'
        return src, False
    if placement in ('class_attr', 'class_nested_attr'):
        # LATER stands for the class-body name here; it is bound *before* the method (the subject is
        # which class body the string is evaluated in, not definition order)
        bind = 'Later = UA'
        if placement == 'class_attr':
            src += f'@beartype\nclass K:\n    {bind}\n    def m(self, x: {ann}) -> {ann}:\n        return x\nTARGET = K.m\n'
        else:
            src += (f'@beartype\nclass K:\n    Later = UC\n    class N:\n        {bind}\n'
                    f'        def m(self, x: {ann}) -> {ann}:\n            return x\nTARGET = K.N.m\n')
        return src, True
    raise ValueError(placement)


def cases(tier, seed):
    out = []
    hints = HINTS if tier != 'quick' else HINTS[:10]
    lhints = LATER_HINTS if tier != 'quick' else LATER_HINTS[:4] + LATER_HINTS[9:10] + LATER_HINTS[12:14]
    for pl in PLACEMENTS:
        for form in FORMS:
            if pl.startswith('class_') and form.startswith('later'):
                continue
            if pl.startswith('pep695'):
                if form.startswith('later'):
                    continue
                for h in (P695_HINTS if tier != 'quick' else P695_HINTS[:3]):
                    name = f'{pl}:{form}:{h}'
                    out.append((name, {'hint': h, 'placement': pl, 'form': form}, {}, {'gen': 'c07', 'name': name}))
                continue
            for h in (lhints if (form.startswith('later') or pl.startswith('class_')) else hints):
                if pl.startswith('class_') and ('LATERG' in h or 'LATERL' in h):
                    continue
                if tier == 'quick' and pl in ('nested_method', 'closure_in_method') and hash((h, form)) % 2:
                    continue
                name = f'{pl}:{form}:{h}'
                out.append((name, {'hint': h, 'placement': pl, 'form': form}, {}, {'gen': 'c07', 'name': name}))
    return out


_N = [0]


def load(src, tag):
    os.makedirs(BUILD, exist_ok=True)
    _N[0] += 1
    modname = f'c07_{os.getpid()}_{_N[0]}'
    path = os.path.join(BUILD, modname + '.py')
    with open(path, 'w') as f:
        f.write(src)
    spec = importlib.util.spec_from_file_location(modname, path)
    mod = importlib.util.module_from_spec(spec)
    sys.modules[modname] = mod
    with recording() as recs:
        spec.loader.exec_module(mod)
    try:
        os.unlink(path)
    except OSError:
        pass
    return mod, recs


def wrapper_record(recs):
    ws = [r for r in recs if r.name in ('f', 'm')]
    return ws[-1] if ws else None


def run_case(prop, name, spec, confkw, tier, src):
    out = CaseOut(name, confkw)
    t0 = time.time()
    try:
        from beartype.roar import BeartypeCallHintForwardRefException, BeartypeException
        h, pl, form = spec['hint'], spec['placement'], spec['form']
        s_form, has_self = module_source(h, pl, form)
        s_eval, _ = module_source(h, pl, 'evaluated')
        try:
            m_form, r_form = load(s_form, 'form')
        except BeartypeException as e:
            out.findings.append({'kind': 'c07', 'program': 'decoration', 'label': f'decorating the {form} variant raised {type(e).__name__}',
                                 'replay': _replay_file(src, spec, str(e)), 'detail': f'{type(e).__name__}: {str(e)[:300]}',
                                 'hint': name, 'confkw': {}})
            return out
        m_eval, r_eval = load(s_eval, 'eval')
        wf, we = wrapper_record(r_form), wrapper_record(r_eval)
        if we is None:
            out.skipped = 'no wrapper for the evaluated form (ignorable hint)'
            return out
        if wf is None:
            out.findings.append({'kind': 'c07', 'program': 'decoration', 'label': f'the {form} variant is not wrapped at all',
                                 'replay': _replay_file(src, spec, 'no wrapper'), 'detail': 'evaluated form is checked, this form is not',
                                 'hint': name, 'confkw': {}})
            return out
        # define-later history, driven concretely: before the definition the first call must raise a
        # beartype forward-reference exception; afterwards the *same* wrapper must work
        if form.startswith('later') and 'before' in m_form.CALLS:
            out.obligations += 1
            b = m_form.CALLS['before']
            if b == 'no exception' or not any(c is BeartypeCallHintForwardRefException or
                                             (isinstance(c, type) and issubclass(c, BeartypeCallHintForwardRefException)) for c in b):
                out.findings.append({'kind': 'c07', 'program': 'call-before-definition',
                                     'label': f'calling before the name is defined gave {b if isinstance(b, str) else b[0].__name__} instead of a beartype forward-reference exception',
                                     'replay': _replay_file(src, spec, 'before'), 'detail': str(b)[:200], 'hint': name, 'confkw': {}})
            else:
                out.discharged += 1
        ga, gb = Generated(), Generated()
        for g, w in ((ga, wf), (gb, we)):
            g.hint, g.confkw, g.wrapper = None, {}, w
        anynode = refsem.Node('any')
        from .universe import Universe
        ea = Encoding.__new__(Encoding)
        lead_a = []
        ea0 = None
        # build both encodings on one universe; methods receive `self` first
        class _E(Encoding):
            pass
        first = Encoding(ga, 3, node=anynode, leading=())
        if has_self:
            U = first.U
            selfobj = U.obj('selfobj')
            first = Encoding(ga, 3, node=anynode, share=first, leading=(selfobj,))
            second = Encoding(gb, None, node=anynode, share=first, leading=(selfobj,))
        else:
            second = Encoding(gb, None, node=anynode, share=first)
        first.assume.extend(second.assume)
        for r in second.results.values():
            first.results[id(r)] = r
        d = Discharger(first)
        out.nontrivial = True
        own_draws = getattr(first.results['wrapper'].ctx, 'own_draws', 0)
        if own_draws:
            # the string resolves to a proxy that answers isinstance() with a *sampled* deep check of
            # its own (its draw is independent of the wrapper's): the two variants cannot agree draw
            # by draw, so they are held to the same two-sided contract instead -- every object that
            # fully conforms to the evaluated hint is accepted, every object the O(1) strategy must
            # reject for the evaluated hint is rejected -- for all draws of both
            ehint = m_eval.TARGET.__annotations__['x']
            enode = refsem.parse(ehint)
            sem = first.sem
            oblige(out, d, first, 'C07', f'the {form} variant rejects an object that fully conforms to the evaluated hint',
                   [sem.full(enode, first.x), z3.Not(first.guards['param'])], ('c07', 'param'), dict(src, spec=spec))
            oblige(out, d, first, 'C07', f'the {form} variant accepts an object that every O(1) check of the evaluated hint must reject',
                   [sem.mr(enode, first.x), first.guards['param']], ('c07', 'param'), dict(src, spec=spec))
            oblige(out, d, first, 'C07', f'the evaluated variant itself breaks that contract (harness sanity)',
                   [z3.Or(z3.And(sem.full(enode, first.x), z3.Not(second.guards['param'])),
                          z3.And(sem.mr(enode, first.x), second.guards['param']))], ('c07', 'param'), dict(src, spec=spec))
            out.observations.append(f'deep proxy: {own_draws} independent draw(s); contract obligations used instead of draw-by-draw equivalence')
        else:
            for prog in ('param', 'return'):
                pre = [first.guards['param'], second.guards['param']] if prog == 'return' else []
                oblige(out, d, first, 'C07', f'{prog} guard of the {form} variant differs from the evaluated variant',
                       pre + [z3.Xor(first.guards[prog], second.guards[prog])], ('c07', prog), dict(src, spec=spec))
        for sc in first.side['param']:
            oblige(out, d, first, 'C07', f'{sc.kind} reachable at `{sc.where}` in the {form} variant', [sc.cond],
                   ('c07', 'param'), dict(src, spec=spec))
        out.queries += d.stats['queries']
        out.solver_s += d.stats['solver_s']
        out.sample = {'case': name, 'annotation_as_written': s_form.split('def ')[1].split(':\n')[0][:120],
                      'obligation': 'unsat(guard_form(x,r) xor guard_evaluated(x,r)) for parameter and return'}
    except Unsupported as e:
        out.inconclusive.append(f'unsupported: {e}')
    except Exception:
        out.inconclusive.append('harness exception: ' + traceback.format_exc()[-700:])
    out.wall = time.time() - t0
    return out


def _replay_file(src, spec, note):
    from .core import write_replay
    return write_replay('C07', {'property': 'C07', 'kind': 'c07', 'hint': dict(src, spec=spec), 'obj': {'c': 'NoneType'},
                                'draw': 0, 'program': 'note', 'note': note})


def replay_c07(p):
    """Call both variants on the reified object under the pinned draw and compare the verdicts."""
    from beartype.roar import BeartypeCallHintViolation, BeartypeException, BeartypeCallHintForwardRefException
    from . import universe
    from .drawpin import PIN
    spec = p['hint']['spec']
    s_form, has_self = module_source(spec['hint'], spec['placement'], spec['form'])
    s_eval, _ = module_source(spec['hint'], spec['placement'], 'evaluated')
    try:
        m_form, _r = load(s_form, 'form')
    except BeartypeException as e:
        return True, f'decorating the {spec["form"]} variant raised {type(e).__name__}: {str(e)[:200]}'
    m_eval, _r = load(s_eval, 'eval')
    if p.get('program') == 'note':
        if p.get('note') == 'before':
            b = m_form.CALLS.get('before')
            bad = b == 'no exception' or not any(isinstance(c, type) and issubclass(c, BeartypeCallHintForwardRefException) for c in b)
            return bad, f'call before definition: {b}'
        return True, p.get('note', '')

    def verdict(mod):
        PIN.value = p['draw']
        try:
            obj = universe.build(p['obj'])
            t = mod.TARGET
            if spec['placement'].startswith('pep695'):
                args = ((mod.G.N() if spec['placement'] == 'pep695_nested' else mod.G()), obj) if has_self else (obj,)
            else:
                args = (mod.K.N() if spec['placement'] in ('nested_method', 'class_nested_attr') else mod.K(), obj) if has_self else (obj,)
            try:
                t(*args)
                return 'accept'
            except BeartypeCallHintViolation as e:
                return 'reject:' + type(e).__name__
            except Exception as e:
                return 'error:' + type(e).__name__
        finally:
            PIN.value = None
    a, b = verdict(m_form), verdict(m_eval)
    if a != b:
        return True, f'{spec["form"]} variant: {a}; evaluated variant: {b}; object {universe.build(p["obj"])!r}, draw {p["draw"]}'
    return False, f'both {a}'
