"""Reference semantics of type hints, written from the PEPs — shares no code with beartype.

``parse(hint)`` turns a ``typing`` object into a small tree using only
``typing.get_origin`` / ``get_args`` and ``isinstance`` checks on public typing
classes.  ``Sem(U)`` maps a tree to z3 predicates over the universe:

* ``full(H, x)``    — [[H]](x): x conforms at full depth (for all items, keys, values);
* ``mr(H, x)``      — MR[H](x): violations the O(1) strategy is obliged to see;
* ``sampled(H, x, r, is_random)`` — S_r[H](x): the documented O(1) strategy.

``conforms(obj, H)`` is the concrete counterpart of ``full`` used by replays.
"""
from __future__ import annotations
import collections
import collections.abc as cabc
import enum
import types
import typing
from typing import Any
import z3

from .universe import Universe, Unsupported
from . import userclasses as uc

try:
    from typing import Annotated, Literal
except ImportError:  # pragma: no cover
    from typing_extensions import Annotated, Literal

# families whose items the O(1) strategy samples (DESIGN §2), keyed by origin class
SEQ_ORIGINS = (list, cabc.Sequence, cabc.MutableSequence)
COLL_ORIGINS = (set, frozenset, cabc.Set, cabc.MutableSet, collections.deque, cabc.KeysView,
                cabc.ValuesView, cabc.Collection)
QUASI_ORIGINS = (cabc.Iterable, cabc.Container, cabc.Reversible)
MAP_ORIGINS = (dict, cabc.Mapping, cabc.MutableMapping, collections.defaultdict,
               collections.OrderedDict, collections.Counter, collections.ChainMap)
SHALLOW_ORIGINS = (cabc.Iterator, cabc.Generator, cabc.AsyncIterator, cabc.AsyncGenerator,
                   cabc.AsyncIterable, cabc.Awaitable, cabc.Coroutine, cabc.Callable,
                   cabc.MappingView)


class Node:
    __slots__ = ('kind', 'cls', 'kids', 'vals', 'hint')

    def __init__(self, kind, cls=None, kids=(), vals=(), hint=None):
        self.kind, self.cls, self.kids, self.vals, self.hint = kind, cls, list(kids), list(vals), hint

    def __repr__(self):
        return f'<{self.kind} {getattr(self.cls, "__name__", self.cls)} {self.kids or ""}{self.vals or ""}>'


def parse(h, tower=False, overrides=None) -> Node:
    """typing object -> Node.  ``tower``: PEP 484 numeric tower reading of float/complex.
    ``overrides``: {hint: replacement} applied at every occurrence (by equality)."""
    P = lambda k: parse(k, tower, overrides)
    if overrides:
        try:
            if h in overrides:
                rep = overrides[h]
                # a self-containing override (A -> A | B) is applied once
                ov2 = {k: v for k, v in overrides.items() if k != h}
                return parse(rep, tower, ov2) if _mentions(rep, h) else parse(rep, tower, overrides)
        except TypeError:
            pass
    if h is Any or h is object:
        return Node('any', hint=h)
    if h is None or h is type(None):
        return Node('class', type(None), hint=h)
    if h is getattr(typing, 'LiteralString', object()) or h is typing.Text:
        return Node('class', str, hint=h)
    if tower and h is float:
        return Node('union', kids=[Node('class', float), Node('class', int)], hint=h)
    if tower and h is complex:
        return Node('union', kids=[Node('class', complex), Node('class', float), Node('class', int)], hint=h)
    if isinstance(h, typing.TypeVar):
        if h.__bound__ is not None:
            return P(h.__bound__)
        if h.__constraints__:
            return Node('union', kids=[P(c) for c in h.__constraints__], hint=h)
        return Node('any', hint=h)
    if hasattr(h, '__supertype__') and callable(h):          # NewType
        return P(h.__supertype__)
    TAT = getattr(typing, 'TypeAliasType', None)
    if TAT is not None and isinstance(h, TAT):                # PEP 695 alias: means its value
        if _mentions_alias(h.__value__, h):
            # recursive alias: unrolled RECURSION_UNROLL times, the innermost occurrence cut off by `bottom`
            # ([[.]] = nothing, MR[.] = nothing: an under-approximation on both sides, so C01 / C02 stay sound
            # whatever depth beartype itself recurses to -- it must go at least one level)
            depth = _REC_DEPTH.get(id(h), 0)
            if depth >= RECURSION_UNROLL:
                return Node('bottom', hint=h)
            _REC_DEPTH[id(h)] = depth + 1
            try:
                return P(h.__value__)
            finally:
                _REC_DEPTH[id(h)] = depth
        return P(h.__value__)
    origin = typing.get_origin(h)
    args = typing.get_args(h)
    if TAT is not None and isinstance(origin, TAT):           # subscripted generic alias
        return P(_subst(origin.__value__, dict(zip(origin.__type_params__, args))))
    if origin is Annotated:
        return Node('annotated', kids=[P(args[0])], vals=list(h.__metadata__), hint=h)
    if origin is typing.Union or origin is getattr(types, 'UnionType', None):
        return Node('union', kids=[P(a) for a in args], hint=h)
    if origin is Literal:
        return Node('literal', vals=list(args), hint=h)
    if origin is tuple and any(_unpacked(a) is not None for a in args):
        # PEP 646: a fixed-length unpacked tuple inside a fixed-length tuple is spliced in place
        flat = []
        for a in args:
            inner = _unpacked(a)
            if inner is None:
                flat.append(a)
            elif Ellipsis in inner:
                raise Unsupported(f'variadic unpacked tuple in {h!r}')
            else:
                flat.extend(inner)
        return Node('tuple_fixed', tuple, kids=[P(a) for a in flat], hint=h)
    if origin is tuple:
        if len(args) == 2 and args[1] is Ellipsis:
            return Node('seq', tuple, kids=[P(args[0])], hint=h)
        if args == ((),) or args == ():
            return Node('tuple_fixed', tuple, kids=[], hint=h) if h is not tuple and h is not typing.Tuple else Node('class', tuple, hint=h)
        return Node('tuple_fixed', tuple, kids=[P(a) for a in args], hint=h)
    if origin is type:
        return Node('type', type, kids=[P(args[0])], hint=h)
    if origin is not None and isinstance(origin, type) and not args and getattr(h, '_name', None):
        return Node('class', origin, hint=h)        # bare typing alias (typing.Hashable, typing.Sized, typing.List)
    if origin is not None and isinstance(origin, type):
        if origin in SEQ_ORIGINS:
            return Node('seq', origin, kids=[P(args[0])], hint=h)
        if origin is cabc.ItemsView:
            return Node('itemsview', origin, kids=[P(args[0]), P(args[1])], hint=h)
        if origin in COLL_ORIGINS:
            return Node('coll', origin, kids=[P(args[0])], hint=h)
        if origin in QUASI_ORIGINS:
            return Node('quasi', origin, kids=[P(args[0])], hint=h)
        if origin is collections.Counter:
            return Node('map', origin, kids=[P(args[0]), Node('class', int)], hint=h)
        if origin in MAP_ORIGINS:
            return Node('map', origin, kids=[P(args[0]), P(args[1])], hint=h)
        if origin in SHALLOW_ORIGINS:
            return Node('class', origin, hint=h)
        if issubclass(origin, typing.Generic):
            return _generic(origin, args, h, tower, overrides)
        raise Unsupported(f'subscripted origin {origin!r}')
    if isinstance(h, type):
        # a user class deriving from a *parameterised* container (class IntList(List[int])) is a
        # generic whose pseudo-superclass constrains the items even when it is not subscripted
        if h.__module__.startswith('bearverif') and any(typing.get_args(b) and not all(isinstance(a, typing.TypeVar) for a in typing.get_args(b))
                                                       for b in getattr(h, '__orig_bases__', ())):
            return _generic(h, (), h, tower, overrides)
        return Node('class', h, hint=h)
    if isinstance(h, tuple) and h and all(isinstance(c, type) for c in h):
        return Node('union', kids=[Node('class', c) for c in h], hint=h)
    # bare typing aliases (typing.List, typing.Dict, ...) mean their origin class
    if origin is None and hasattr(h, '__origin__') and isinstance(h.__origin__, type):
        return Node('class', h.__origin__, hint=h)
    raise Unsupported(f'hint {h!r}')


RECURSION_UNROLL = 2
_REC_DEPTH = {}


def _mentions_alias(v, alias):
    if v is alias:
        return True
    return any(_mentions_alias(a, alias) for a in typing.get_args(v) if a is not Ellipsis and not isinstance(a, (int, str, bytes, bool, type(None), list)))


def _unpacked(a):
    """Arguments of the tuple unpacked by ``*tuple[...]`` / ``Unpack[Tuple[...]]``, else None."""
    if getattr(a, '__unpacked__', False) and typing.get_origin(a) is tuple:
        return typing.get_args(a)
    if typing.get_origin(a) is getattr(typing, 'Unpack', object()):
        t = typing.get_args(a)[0]
        if typing.get_origin(t) is tuple:
            return typing.get_args(t)
    return None


def _mentions(h, target):
    try:
        if h == target:
            return True
    except Exception:
        pass
    return any(_mentions(a, target) for a in typing.get_args(h) if a is not Ellipsis and not isinstance(a, (int, str, bytes, bool, enum.Enum, type(None))))


def _generic(origin, args, h, tower, overrides):
    """User generic G[args]: an instance of G that also satisfies each parameterised
    pseudo-superclass in G.__orig_bases__ with G's type parameters substituted."""
    params = getattr(origin, '__parameters__', ())
    sub = dict(zip(params, args))
    kids = []
    for b in getattr(origin, '__orig_bases__', ()):
        bo = typing.get_origin(b)
        if bo is None or bo is typing.Generic or bo is typing.Protocol:
            continue
        bargs = tuple(sub.get(a, a) for a in typing.get_args(b))
        try:
            kids.append(parse(bo[bargs] if len(bargs) != 1 else _resub(b, bargs), tower, overrides))
        except Unsupported:
            raise
    return Node('generic', origin, kids=kids, hint=h)


def _subst(h, sub):
    """Substitute type variables in a typing object."""
    if isinstance(h, typing.TypeVar):
        return sub.get(h, h)
    origin, args = typing.get_origin(h), typing.get_args(h)
    if not args or origin is Literal:
        return h
    new = tuple(a if a is Ellipsis else _subst(a, sub) for a in args)
    if new == args:
        return h
    if origin is typing.Union or origin is getattr(types, 'UnionType', None):
        return typing.Union[new]
    if origin is Annotated:
        return Annotated[(new[0],) + tuple(h.__metadata__)]
    return origin[new if len(new) != 1 else new[0]]


def _resub(b, bargs):
    return b.__origin__[bargs[0]] if not hasattr(b, 'copy_with') else b.copy_with(bargs)


def unsubscripted_generic(cls):
    return Node('generic', cls, kids=[], hint=cls)


# --------------------------------------------------------------------------- validators

def parse_validator(v):
    """beartype.vale validator -> tree, read off the validator's *public repr structure*
    is not possible; the harness therefore builds validators through ``vale_expr``
    trees (see grammar.py) and passes those trees here.  A raw validator object
    without a tree is unsupported."""
    tree = getattr(v, '_bearverif_tree', None)
    if tree is None:
        from .grammar import VTREES
        tree = VTREES.get(id(v))
    if tree is None:
        raise Unsupported('validator without a construction tree')
    return tree


class Sem:
    def __init__(self, U: Universe):
        self.U = U

    # ---- [[H]]
    def full(self, n: Node, x):
        U = self.U
        k = n.kind
        if k == 'any':
            return z3.BoolVal(True)
        if k == 'bottom':                 # cut-off of a recursive alias: nothing is *known* to conform
            return z3.BoolVal(False)
        if k == 'class':
            return U.isinstance(x, n.cls)
        if k == 'union':
            return z3.Or([self.full(c, x) for c in n.kids])
        if k == 'literal':
            return z3.Or([z3.And(U.isinstance(x, type(v)), U.eq_const(x, v)) for v in n.vals])
        if k == 'tuple_fixed':
            cs = [U.isinstance(x, tuple), U.len(x) == len(n.kids)]
            for i, c in enumerate(n.kids):
                cs.append(self.full(c, U.item_of(x, i)))
            return z3.And(cs)
        if k in ('seq', 'coll'):
            return z3.And(U.isinstance(x, n.cls), U.forall_items(x, lambda t: self.full(n.kids[0], t)))
        if k == 'itemsview':
            def pair(t):
                return z3.And(U.isinstance(t, tuple), U.len(t) == 2,
                              self.full(n.kids[0], U.item_of(t, 0)), self.full(n.kids[1], U.item_of(t, 1)))
            return z3.And(U.isinstance(x, n.cls), U.forall_items(x, pair))
        if k == 'quasi':
            # items are observable (and therefore constrained) for every iterable of the universe
            # (one-shot iterators are judged by their class alone, like Iterator[...] itself: their
            # items cannot be observed without consuming them)
            return z3.And(U.isinstance(x, n.cls),
                          z3.Implies(z3.And(U.iterable_items(x), z3.Not(U.one_shot(x))),
                                     U.forall_items(x, lambda t: self.full(n.kids[0], t))))
        if k == 'map':
            def kv(t):
                return z3.And(self.full(n.kids[0], t), self.full(n.kids[1], U.val_of(x, t)))
            return z3.And(U.isinstance(x, n.cls), U.forall_items(x, kv))
        if k == 'type':
            c = n.kids[0]
            return z3.And(U.is_class_obj(x), self.type_arg(c, x))
        if k == 'annotated':
            return z3.And([self.full(n.kids[0], x)] + [self.vale(parse_validator(v), x) for v in n.vals])
        if k == 'generic':
            return z3.And([U.isinstance(x, n.cls)] + [self.full(c, x) for c in n.kids])
        raise Unsupported(f'full: {k}')

    def type_arg(self, c: Node, x):
        U = self.U
        if c.kind == 'any':
            return z3.BoolVal(True)
        if c.kind == 'class':
            return U.issubclass(x, c.cls)
        if c.kind == 'union':
            return z3.Or([self.type_arg(k, x) for k in c.kids])
        raise Unsupported(f'type[...] argument {c.kind}')

    # ---- validator meaning
    def vale(self, t, x):
        U = self.U
        op = t[0]
        if op == 'and':
            return z3.And(self.vale(t[1], x), self.vale(t[2], x))
        if op == 'or':
            return z3.Or(self.vale(t[1], x), self.vale(t[2], x))
        if op == 'not':
            return z3.Not(self.vale(t[1], x))
        if op == 'is':
            return U.pred(t[1])(x)
        if op == 'eq':
            return U.eq_const(x, t[1])
        if op == 'inst':
            return U.isinstance(x, t[1])
        if op == 'sub':
            return z3.And(U.is_class_obj(x), U.issubclass(x, t[1]))
        if op == 'attr':
            ai = U.attr_index(t[1])
            return z3.And(U.hasattr(x, ai), self.vale(t[2], U.attr_of(x, t[1])))
        raise Unsupported(f'validator op {op}')

    # ---- MR[H]: violations the O(1) strategy must reject whatever the draw
    def mr(self, n: Node, x):
        U = self.U
        k = n.kind
        F = z3.BoolVal(False)
        if k in ('any', 'bottom'):        # bottom: nothing is known to be rejected either
            return F
        if k == 'class':
            return z3.Not(U.isinstance(x, n.cls))
        if k == 'union':
            return z3.And([self.mr(c, x) for c in n.kids])
        if k == 'literal':
            return z3.Not(self.full(n, x))
        if k == 'tuple_fixed':
            alts = [z3.Not(U.isinstance(x, tuple)), U.len(x) != len(n.kids)]
            for i, c in enumerate(n.kids):
                alts.append(self.mr(c, U.item_of(x, i)))
            return z3.Or(alts)
        if k in ('seq', 'coll'):
            return z3.Or(z3.Not(U.isinstance(x, n.cls)),
                         z3.And(U.len(x) > 0, U.forall_items(x, lambda t: self.mr(n.kids[0], t))))
        if k == 'itemsview':
            def pair(t):
                return z3.Or(z3.Not(U.isinstance(t, tuple)), U.len(t) != 2,
                             self.mr(n.kids[0], U.item_of(t, 0)), self.mr(n.kids[1], U.item_of(t, 1)))
            return z3.Or(z3.Not(U.isinstance(x, n.cls)),
                         z3.And(U.len(x) > 0, U.forall_items(x, pair)))
        if k == 'quasi':
            return z3.Or(z3.Not(U.isinstance(x, n.cls)),
                         z3.And(U.isinstance(x, cabc.Collection), U.len(x) > 0,
                                U.forall_items(x, lambda t: self.mr(n.kids[0], t))))
        if k == 'map':
            def kv(t):
                return z3.Or(self.mr(n.kids[0], t), self.mr(n.kids[1], U.val_of(x, t)))
            return z3.Or(z3.Not(U.isinstance(x, n.cls)), z3.And(U.len(x) > 0, U.forall_items(x, kv)))
        if k == 'type':
            return z3.Not(self.full(n, x))
        if k == 'annotated':
            return z3.Or([self.mr(n.kids[0], x)] + [z3.Not(self.vale(parse_validator(v), x)) for v in n.vals])
        if k == 'generic':
            return z3.Or([z3.Not(U.isinstance(x, n.cls))] + [self.mr(c, x) for c in n.kids])
        raise Unsupported(f'mr: {k}')

    # ---- S_r[H]: the documented O(1) strategy
    def sampled(self, n: Node, x, r, is_random=True):
        """Declarative statement of what an *accepted* object is guaranteed to look like:
        class test at every level reached; each container is empty or its designated
        item conforms (recursively under the same draw)."""
        U = self.U
        k = n.kind
        S = lambda c, t: self.sampled(c, t, r, is_random)
        if k in ('any', 'bottom'):
            return z3.BoolVal(True)
        if k in ('class', 'literal', 'type'):
            return self.full(n, x)
        if k == 'union':
            return z3.Or([S(c, x) for c in n.kids])
        if k == 'tuple_fixed':
            cs = [U.isinstance(x, tuple), U.len(x) == len(n.kids)]
            for i, c in enumerate(n.kids):
                cs.append(S(c, U.item_of(x, i)))
            return z3.And(cs)
        if k == 'seq':
            return z3.And(U.isinstance(x, n.cls),
                          z3.Or(U.len(x) == 0, S(n.kids[0], self.designated(x, r, is_random, True))))
        if k == 'coll':
            # documented: "at least one item (or emptiness) consistent with the hint"
            return z3.And(U.isinstance(x, n.cls),
                          z3.Or(U.len(x) == 0, U.exists_item(x, lambda t: S(n.kids[0], t))))
        if k == 'itemsview':
            def pair(t):
                return z3.And(U.isinstance(t, tuple), U.len(t) == 2,
                              S(n.kids[0], U.item_of(t, 0)), S(n.kids[1], U.item_of(t, 1)))
            return z3.And(U.isinstance(x, n.cls), z3.Or(U.len(x) == 0, U.exists_item(x, pair)))
        if k == 'quasi':
            return z3.And(U.isinstance(x, n.cls),
                          z3.Or(z3.Not(U.isinstance(x, cabc.Collection)), U.len(x) == 0,
                                U.exists_item(x, lambda t: S(n.kids[0], t))))
        if k == 'map':
            def kv(t):
                return z3.And(S(n.kids[0], t), S(n.kids[1], U.val_of(x, t)))
            return z3.And(U.isinstance(x, n.cls), z3.Or(U.len(x) == 0, U.exists_item(x, kv)))
        if k == 'annotated':
            return z3.And([S(n.kids[0], x)] + [self.vale(parse_validator(v), x) for v in n.vals])
        if k == 'generic':
            return z3.And([U.isinstance(x, n.cls)] + [S(c, x) for c in n.kids])
        raise Unsupported(f'sampled: {k}')

    def designated(self, x, r, is_random, is_seq):
        """The item the documentation designates: item(x, r mod len) for sequences under
        random sampling, the first item otherwise.  is_seq=None: decide by class."""
        U = self.U
        first = U.item_of(x, 0)
        if not is_random:
            return first
        idx = U.pymod(r, U.len(x))
        rnd = U.item_of(x, idx)
        if is_seq is True:
            return rnd
        return z3.If(U.isinstance(x, cabc.Sequence), rnd, first)


# --------------------------------------------------------------------------- concrete counterpart

def conforms(obj, n: Node, preds=None) -> bool:
    """Does real object ``obj`` fully conform to Node ``n``?  (Independent deep walk.)"""
    k = n.kind
    if k == 'bottom':
        return False
    if k == 'any':
        return True
    if k == 'class':
        return isinstance(obj, n.cls)
    if k == 'union':
        return any(conforms(obj, c, preds) for c in n.kids)
    if k == 'literal':
        return any(type(obj) is type(v) and obj == v or (isinstance(obj, type(v)) and obj == v) for v in n.vals)
    if k == 'tuple_fixed':
        return isinstance(obj, tuple) and len(obj) == len(n.kids) and all(
            conforms(o, c, preds) for o, c in zip(obj, n.kids))
    if k in ('seq', 'coll'):
        return isinstance(obj, n.cls) and all(conforms(i, n.kids[0], preds) for i in _items(obj))
    if k == 'itemsview':
        return isinstance(obj, n.cls) and all(
            isinstance(i, tuple) and len(i) == 2 and conforms(i[0], n.kids[0], preds) and conforms(i[1], n.kids[1], preds)
            for i in _items(obj))
    if k == 'quasi':
        if not isinstance(obj, n.cls):
            return False
        its = _items(obj, peek=True)
        return its is None or all(conforms(i, n.kids[0], preds) for i in its)
    if k == 'map':
        if not isinstance(obj, n.cls):
            return False
        src = obj._d if hasattr(obj, '_d') else obj
        return all(conforms(a, n.kids[0], preds) and conforms(src[a], n.kids[1], preds) for a in list(src))
    if k == 'type':
        return isinstance(obj, type) and _type_arg(obj, n.kids[0])
    if k == 'annotated':
        return conforms(obj, n.kids[0], preds) and all(vale_concrete(parse_validator(v), obj) for v in n.vals)
    if k == 'generic':
        return isinstance(obj, n.cls) and all(conforms(obj, c, preds) for c in n.kids)
    raise Unsupported(f'conforms: {k}')


def _type_arg(obj, c):
    if c.kind == 'any':
        return True
    if c.kind == 'class':
        return issubclass(obj, c.cls)
    if c.kind == 'union':
        return any(_type_arg(obj, k) for k in c.kids)
    raise Unsupported('type arg')


def _items(obj, peek=False):
    """Items of a universe container without disturbing it (uses the backing store of the
    harness classes; one-shot iterators are *not* consumed)."""
    if peek and isinstance(obj, cabc.Iterator):
        return None
    if hasattr(obj, '_i'):
        return list(obj._i)
    if isinstance(obj, (types.GeneratorType, type(iter([])))):
        return None if peek else []
    if peek and not isinstance(obj, cabc.Iterable):
        return None
    return list(obj)


def vale_concrete(t, obj):
    op = t[0]
    if op == 'and':
        return vale_concrete(t[1], obj) and vale_concrete(t[2], obj)
    if op == 'or':
        return vale_concrete(t[1], obj) or vale_concrete(t[2], obj)
    if op == 'not':
        return not vale_concrete(t[1], obj)
    if op == 'is':
        return bool(t[1](obj))
    if op == 'eq':
        return bool(obj == t[1])
    if op == 'inst':
        return isinstance(obj, t[1])
    if op == 'sub':
        return isinstance(obj, type) and issubclass(obj, t[1])
    if op == 'attr':
        return hasattr(obj, t[1]) and vale_concrete(t[2], getattr(obj, t[1]))
    raise Unsupported(op)


def must_reject(obj, n: Node) -> bool:
    """Concrete MR[H]: is ``obj`` a violation the O(1) strategy is obliged to see?"""
    k = n.kind
    if k == 'bottom':
        return False
    if k == 'any':
        return False
    if k == 'class':
        return not isinstance(obj, n.cls)
    if k == 'union':
        return all(must_reject(obj, c) for c in n.kids)
    if k in ('literal', 'type'):
        return not conforms(obj, n)
    if k == 'tuple_fixed':
        return (not isinstance(obj, tuple)) or len(obj) != len(n.kids) or any(
            must_reject(o, c) for o, c in zip(obj, n.kids))
    if k in ('seq', 'coll'):
        if not isinstance(obj, n.cls):
            return True
        its = _items(obj)
        return len(its) > 0 and all(must_reject(i, n.kids[0]) for i in its)
    if k == 'itemsview':
        if not isinstance(obj, n.cls):
            return True
        its = _items(obj)
        return len(its) > 0 and all(
            (not isinstance(i, tuple)) or len(i) != 2 or must_reject(i[0], n.kids[0]) or must_reject(i[1], n.kids[1])
            for i in its)
    if k == 'quasi':
        if not isinstance(obj, n.cls):
            return True
        if not isinstance(obj, cabc.Collection):
            return False
        its = _items(obj)
        return len(its) > 0 and all(must_reject(i, n.kids[0]) for i in its)
    if k == 'map':
        if not isinstance(obj, n.cls):
            return True
        src = obj._d if hasattr(obj, '_d') else obj
        keys = list(src)
        return len(keys) > 0 and all(must_reject(a, n.kids[0]) or must_reject(src[a], n.kids[1]) for a in keys)
    if k == 'annotated':
        return must_reject(obj, n.kids[0]) or any(not vale_concrete(parse_validator(v), obj) for v in n.vals)
    if k == 'generic':
        return (not isinstance(obj, n.cls)) or any(must_reject(obj, c) for c in n.kids)
    raise Unsupported(f'must_reject: {k}')


def sampled_ok(obj, n: Node, r: int, is_random=True) -> bool:
    """Concrete S_r[H]: does ``obj`` look the way the documented O(1) strategy guarantees
    for an accepted object under draw ``r``?"""
    k = n.kind
    S = lambda o, c: sampled_ok(o, c, r, is_random)
    if k == 'bottom':
        return True
    if k == 'any':
        return True
    if k in ('class', 'literal', 'type'):
        return conforms(obj, n)
    if k == 'union':
        return any(S(obj, c) for c in n.kids)
    if k == 'tuple_fixed':
        return isinstance(obj, tuple) and len(obj) == len(n.kids) and all(S(o, c) for o, c in zip(obj, n.kids))
    if k == 'seq':
        if not isinstance(obj, n.cls):
            return False
        its = _items(obj)
        if not its:
            return True
        return S(its[r % len(its)] if is_random else its[0], n.kids[0])
    if k in ('coll', 'quasi'):
        if not isinstance(obj, n.cls):
            return False
        if k == 'quasi' and not isinstance(obj, cabc.Collection):
            return True
        its = _items(obj)
        return (not its) or any(S(i, n.kids[0]) for i in its)
    if k == 'itemsview':
        if not isinstance(obj, n.cls):
            return False
        its = _items(obj)
        return (not its) or any(isinstance(i, tuple) and len(i) == 2 and S(i[0], n.kids[0]) and S(i[1], n.kids[1])
                                for i in its)
    if k == 'map':
        if not isinstance(obj, n.cls):
            return False
        src = obj._d if hasattr(obj, '_d') else obj
        keys = list(src)
        return (not keys) or any(S(a, n.kids[0]) and S(src[a], n.kids[1]) for a in keys)
    if k == 'annotated':
        return S(obj, n.kids[0]) and all(vale_concrete(parse_validator(v), obj) for v in n.vals)
    if k == 'generic':
        return isinstance(obj, n.cls) and all(S(obj, c) for c in n.kids)
    raise Unsupported(f'sampled_ok: {k}')


def reads_bound(n: Node) -> int:
    """K(H): the number of item reads the hint alone allows — one per container node,
    two per mapping node (first key, its value), for unions the maximum... no: the sum over
    members is the safe constant, since several members may each read before failing."""
    k = n.kind
    if k in ('any', 'class', 'literal', 'type'):
        return 0
    if k in ('union', 'generic'):
        return sum(reads_bound(c) for c in n.kids)
    if k == 'tuple_fixed':
        return len(n.kids) + sum(reads_bound(c) for c in n.kids)
    if k in ('seq', 'coll', 'quasi'):
        return 1 + reads_bound(n.kids[0])
    if k == 'itemsview':
        return 1 + 2 + reads_bound(n.kids[0]) + reads_bound(n.kids[1])
    if k == 'map':
        return 2 + reads_bound(n.kids[0]) + reads_bound(n.kids[1])
    if k == 'annotated':
        return reads_bound(n.kids[0])
    raise Unsupported(f'reads_bound: {k}')


def depth_ok_for_reach(n: Node) -> bool:
    """Clause 3 of C02 is stated with the item's violation itself in MR, which makes it
    independent of the (shared) draw at deeper levels: applicable at every depth."""
    return True
