"""CLI: python -m bearverif check <id> --tier quick|thorough   |   python -m bearverif replay <file>"""
from __future__ import annotations
import argparse
import os
import sys
import time


def main(argv=None):
    ap = argparse.ArgumentParser(prog='bearverif')
    sub = ap.add_subparsers(dest='cmd', required=True)
    c = sub.add_parser('check')
    c.add_argument('prop')
    c.add_argument('--tier', default=os.environ.get('VERIF_TIER', 'quick'), choices=['quick', 'thorough'])
    c.add_argument('--jobs', type=int, default=int(os.environ.get('VERIF_JOBS', '16')))
    c.add_argument('--limit', type=int, default=0, help='debug: only the first N cases')
    c.add_argument('--only', default='', help='debug: only cases whose name matches this regex')
    r = sub.add_parser('replay')
    r.add_argument('path')
    a = ap.parse_args(argv)
    if a.cmd == 'replay':
        from .replay import replay_subprocess
        ok, detail = replay_subprocess(a.path)
        print(('REPRODUCED: ' if ok else 'NOT-REPRODUCED: ') + str(detail))
        return 1 if ok else 0
    seed = int(os.environ.get('VERIF_SEED', '0'))
    prop = a.prop.upper()
    from . import runners
    fn = runners.RUNNERS.get(prop)
    if fn is None:
        print(f'no check for {prop} (see MANIFEST.json not_applicable)')
        return 2
    os.environ['VERIF_ONLY'] = a.only
    if a.limit:
        os.environ['VERIF_PARTIAL'] = '1'
    return fn(prop, a.tier, seed, a.jobs, a.limit)


if __name__ == '__main__':
    sys.exit(main())
