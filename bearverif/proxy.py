"""Engine P — forking z3-backed proxy strings driven through real code (DESIGN §1.3).

``SymLabel`` is a ``str`` subclass with a constant ``__hash__`` and a symbolic ``__eq__``; real
``dict`` lookups therefore compare it against every stored key, and ``bool()`` of each comparison
asks z3 which outcomes are feasible under the current path condition and forks (depth-first
re-execution with a decision prefix -- CrossHair's architecture in miniature).
"""
from __future__ import annotations
import z3


class Explorer:
    """Depth-first exploration of all feasible decision sequences of ``fn(explorer)``."""

    current: 'Explorer' = None

    def __init__(self, base_constraints=(), max_paths=20000):
        self.base = list(base_constraints)
        self.max_paths = max_paths
        self.solver = z3.Solver()
        self.solver.set('timeout', 10000)
        self.solver.add(self.base)
        self.queries = 0
        self.solver_s = 0.0
        self.paths = 0
        self.truncated = False

    # -- called by SymBool.__bool__
    def decide(self, cond):
        import time
        if self.pos < len(self.prefix):
            choice = self.prefix[self.pos]
        else:
            t0 = time.time()
            self.solver.push()
            self.solver.add(self.pc + [cond])
            can_t = self.solver.check() == z3.sat
            self.solver.pop()
            self.solver.push()
            self.solver.add(self.pc + [z3.Not(cond)])
            can_f = self.solver.check() == z3.sat
            self.solver.pop()
            self.queries += 2
            self.solver_s += time.time() - t0
            if can_t and can_f:
                choice = True
                self.work.append(list(self.taken) + [False])
            elif can_t:
                choice = True
            elif can_f:
                choice = False
            else:
                raise Infeasible()
        self.taken.append(choice)
        self.pos += 1
        self.pc.append(cond if choice else z3.Not(cond))
        return choice

    def entails(self, formula):
        """Does the current path condition entail ``formula``?  (unsat of pc & ~formula)"""
        import time
        t0 = time.time()
        self.solver.push()
        self.solver.add(self.pc + [z3.Not(formula)])
        r = self.solver.check()
        m = self.solver.model() if r == z3.sat else None
        self.solver.pop()
        self.queries += 1
        self.solver_s += time.time() - t0
        return r == z3.unsat, r, m

    def run(self, fn):
        """fn(explorer) is executed once per feasible path; yields its results."""
        self.work = [[]]
        results = []
        while self.work:
            if self.paths >= self.max_paths:
                self.truncated = True
                break
            self.prefix = self.work.pop()
            self.pos = 0
            self.pc = []
            self.taken = []
            Explorer.current = self
            try:
                res = fn(self)
            except Infeasible:
                res = None
            finally:
                Explorer.current = None
            self.paths += 1
            if res is not None:
                results.append(res)
        return results


class Infeasible(Exception):
    pass


class SymBool:
    __slots__ = ('term',)

    def __init__(self, term):
        self.term = term

    def __bool__(self):
        ex = Explorer.current
        if ex is None:
            raise RuntimeError('symbolic boolean used outside an exploration')
        return ex.decide(self.term)


class SymLabel(str):
    """One dotted-name component whose identity is a z3 integer."""

    def __new__(cls, z, tag=''):
        s = super().__new__(cls, f'<{tag or z}>')
        s.z = z
        return s

    def __hash__(self):
        return 0

    def __eq__(self, other):
        if isinstance(other, SymLabel):
            if self.z is other.z or self.z.eq(other.z):
                return True
            return SymBool(self.z == other.z)
        if isinstance(other, str):
            # a concrete label (e.g. the built-in blacklist): symbolic labels are assumed distinct
            # from every concrete name the registry starts with -- except the representatives the
            # harness re-keys as SymLabel constants (negative codes, see c06.BUILTIN_CODES)
            return False
        return NotImplemented

    def __ne__(self, other):
        r = self.__eq__(other)
        if isinstance(r, SymBool):
            return SymBool(z3.Not(r.term))
        return not r

    def isidentifier(self):
        return True


class SymName(str):
    """A dotted package / module name made of symbolic labels."""

    def __new__(cls, labels, tag=''):
        s = super().__new__(cls, '.'.join(str(l) for l in labels))
        s.labels = list(labels)
        return s

    def split(self, sep=None, maxsplit=-1):
        assert sep == '.', 'symbolic names are only ever split on dots'
        return list(self.labels)

    def rpartition(self, sep):
        raise NotImplementedError

    def __hash__(self):
        return 0

    def __eq__(self, other):
        if isinstance(other, SymName):
            if len(self.labels) != len(other.labels):
                return False
            return SymBool(z3.And([a.z == b.z for a, b in zip(self.labels, other.labels)]))
        return False
