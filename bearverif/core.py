"""Engine G core: generate the real code for (hint, conf), encode it, discharge obligations.

``generate``   calls the real public API under the make_func spy;
``Encoding``   holds the z3 side of one (hint, conf, bound): the four guards
               (tester, raiser, decorated parameter, decorated return), their side
               conditions, cost and effect terms, and the reference predicates;
``Discharger`` owns one solver, counts queries, and turns `sat` models into replay files.
"""
from __future__ import annotations
import hashlib
import json
import os
import time
import warnings
import z3

from . import drawpin  # noqa: F401
from .capture import capture_door, capture_wrapper, clear_beartype_caches
from .universe import Universe, Unsupported
from .sym import translate_tester, ExprResult, VObj, VInt, VConc
from .symstmt import run_function, bind_single_pith, guard_of_raiser, StmtResult
from .sym import VArgs, VKwargs
from . import refsem
from .grammar import make_conf

PROGRAMS = ('tester', 'raiser', 'param', 'return')


class Generated:
    __slots__ = ('hint', 'confkw', 'tester', 'raiser', 'wrapper', 'decorated', 'error')

    def __init__(self):
        self.tester = self.raiser = self.wrapper = self.decorated = None
        self.error = None


def make_identity(hint):
    def ident(x):
        return x
    ident.__annotations__ = {'x': hint, 'return': hint}
    return ident


def generate(hint, confkw, conf=None) -> Generated:
    """Run the real factories; record an unsupported/erroring hint instead of raising."""
    g = Generated()
    g.hint, g.confkw = hint, confkw
    conf = conf if conf is not None else make_conf(confkw)
    try:
        with warnings.catch_warnings():
            warnings.simplefilter('ignore')
            g.tester, g.raiser = capture_door(hint, conf)
            g.decorated, g.wrapper = capture_wrapper(make_identity(hint), conf)
    except Exception as e:  # beartype rejects the hint: counted as skipped, not passed
        from beartype.roar import BeartypeException
        g.error = e
        if not isinstance(e, BeartypeException):
            raise
    return g


class _Lazy(dict):
    """Mapping defined for every key (created on first use)."""

    def __init__(self, factory):
        super().__init__()
        self.factory = factory

    def __contains__(self, k):
        return True

    def __missing__(self, k):
        v = self[k] = self.factory(k)
        return v


class Encoding:
    """z3 view of one Generated under one bound (None = unbounded lengths)."""

    def __init__(self, g: Generated, bound, tower=None, node=None, share=None, leading=()):
        """share: another Encoding whose universe, object term and draw are reused (so that two
        generated programs can be compared on the same x and r)."""
        self.g = g
        if share is not None:
            self.U = U = share.U
            self.x, self.r = share.x, share.r
        else:
            self.U = U = Universe(bound)
            self.x = U.obj('x')
            self.r = z3.Int('r')
        self.guards = {}
        self.side = {}
        self.results = {}
        self.sem = refsem.Sem(U)
        tw = bool(g.confkw.get('is_pep484_tower')) if tower is None else tower
        self.node = node if node is not None else refsem.parse(g.hint, tower=tw)
        self.is_random = g.confkw.get('is_random', True)
        self.assume = []
        self.leading = list(leading)      # positional arguments passed before x (e.g. `self`)
        self._encode()

    def _encode(self):
        g, U, x, r = self.g, self.U, self.x, self.r
        T = z3.BoolVal(True)
        # tester
        if g.tester is None:
            self.guards['tester'] = T
            self.side['tester'] = []
        else:
            res = translate_tester(g.tester, U, x, r)
            self.results['tester'] = res
            self.guards['tester'] = res.ret
            self.side['tester'] = res.side
        # raiser
        if g.raiser is None:
            self.guards['raiser'] = T
            self.side['raiser'] = []
        else:
            res = run_function(g.raiser, U, bind_single_pith(x), r)
            self.results['raiser'] = res
            self.guards['raiser'] = guard_of_raiser(res)
            self.side['raiser'] = res.side
        # wrapper: one positional argument x, no keywords
        if g.wrapper is None:
            self.guards['param'] = self.guards['return'] = T
            self.side['param'] = self.side['return'] = []
        else:
            def binder(fn, ctx):
                lead = self.leading
                ctx.env[fn.args.vararg.arg] = (VArgs(z3.IntVal(1 + len(lead)), list(lead) + [x]), T)
                # no keyword argument is passed, whatever the parameter names are
                ctx.env[fn.args.kwarg.arg] = (VKwargs(_Lazy(lambda k: z3.BoolVal(False)),
                                                      _Lazy(lambda k: U.obj(f'kw_{k}'))), T)
            res = run_function(g.wrapper, U, binder, r)
            self.results['wrapper'] = res
            pv, rv = [], []
            for e in res.trace:
                if e.kind == 'violation':
                    nm = e.data['kwargs'].get('pith_name')
                    (rv if (isinstance(nm, VConc) and nm.v == 'return') else pv).append(e.pc)
            self.guards['param'] = z3.Not(z3.Or(pv)) if pv else T
            ret_bad = z3.Or(rv) if rv else z3.BoolVal(False)
            # the identity callee returns its argument and never raises: assumptions of the encoding
            for e in res.of('call'):
                self.assume.append(e.data['result'] == x)
            self.assume.append(z3.Not(res.callee_raises))
            # the return section is reached only if the parameter section passed
            self.guards['return'] = z3.Implies(self.guards['param'], z3.Not(ret_bad))
            self.side['param'] = list(res.side)
            self.side['return'] = []

    # ---- reference predicates
    def full(self):
        return self.sem.full(self.node, self.x)

    def mr(self):
        return self.sem.mr(self.node, self.x)

    def sampled(self):
        return self.sem.sampled(self.node, self.x, self.r, self.is_random)

    def base_constraints(self):
        return self.U.constraints() + [self.r >= 0, self.r < 2 ** 32] + \
            [c for res in self.results.values() for c in res.extra] + self.assume


# Second opinion (DESIGN 1.1, "diff two solvers"): every SECOND_EVERY-th `unsat` of z3 is re-decided by cvc5
# (python wheel) on the SMT-LIB text z3 exports for exactly that query.  cvc5 `sat` is a solver
# disagreement (harness error, exit 2); `unknown` / timeout is recorded and proves nothing.
SECOND_EVERY = int(os.environ.get('BEARVERIF_CVC5_EVERY', '211'))
SECOND = {'asked': 0, 'unsat': 0, 'unknown': 0, 'sat': 0, 'error': 0, 'time_s': 0.0, 'disagreements': []}
_second_n = [0]


def second_opinion(solver, force=False):
    if not SECOND_EVERY and not force:
        return None
    _second_n[0] += 1
    if not force and _second_n[0] % SECOND_EVERY:
        return None
    t0 = time.time()
    try:
        import cvc5
        txt = solver.to_smt2()
        tm = cvc5.TermManager()
        slv = cvc5.Solver(tm)
        slv.setOption('tlimit-per', '10000')
        slv.setLogic('ALL')
        ip = cvc5.InputParser(slv)
        ip.setStringInput(cvc5.InputLanguage.SMT_LIB_2_6, txt, 'q')
        sm = ip.getSymbolManager()
        res = 'unknown'
        while True:
            c = ip.nextCommand()
            if c.isNull():
                break
            o = c.invoke(slv, sm).strip()
            if o in ('sat', 'unsat', 'unknown'):
                res = o
            elif o.startswith('(error'):
                res = 'error'
                break
    except Exception as e:       # a parse problem is recorded, never a verdict
        res = 'error'
    SECOND['asked'] += 1
    SECOND[res] += 1
    SECOND['time_s'] += time.time() - t0
    if res == 'sat':
        SECOND['disagreements'].append(hashlib.sha1(txt.encode()).hexdigest()[:12])
        d = os.path.join(os.path.dirname(os.path.dirname(__file__)), 'build')
        os.makedirs(d, exist_ok=True)
        with open(os.path.join(d, 'disagree-%s.smt2' % SECOND['disagreements'][-1]), 'w') as f:
            f.write(txt)
    return res


def second_snapshot():
    return {k: (list(v) if isinstance(v, list) else v) for k, v in SECOND.items()}


def second_delta(before):
    return {k: (SECOND[k][len(before[k]):] if isinstance(SECOND[k], list) else SECOND[k] - before[k]) for k in SECOND}


class Discharger:
    """One solver per Encoding; push/pop per obligation; statistics for evidence."""

    def __init__(self, enc: Encoding, timeout_ms=10000):
        self.enc = enc
        self.s = z3.Solver()
        self.s.set('timeout', timeout_ms)
        self.built = False
        self.stats = {'queries': 0, 'unsat': 0, 'sat': 0, 'unknown': 0, 'solver_s': 0.0}

    def _build(self):
        if not self.built:
            self.s.add(self.enc.base_constraints())
            self.built = True
            self._nterms = len(self.enc.U.terms)
            self._nlem = len(self.enc.U.lemmas)

    def check(self, *formulas):
        """sat-check of base ∧ formulas.  Returns ('unsat'|'sat'|'unknown', model|None)."""
        self._build()
        U = self.enc.U
        # terms registered after the base was built (by reference predicates) need their WF too
        if len(U.terms) != self._nterms or len(U.lemmas) != self._nlem:
            self.s = z3.Solver()
            self.s.set('timeout', 10000)
            self.built = False
            self._build()
        self.s.push()
        self.s.add(*formulas)
        t0 = time.time()
        r = self.s.check()
        self.stats['solver_s'] += time.time() - t0
        self.stats['queries'] += 1
        res = str(r)
        m = self.s.model() if res == 'sat' else None
        if res == 'unsat':
            second_opinion(self.s)
        self.s.pop()
        if res == 'unknown' and self.stats.get('retried_unknown', 0) < 3:
            # one retry in a fresh solver with six times the budget and another seed (a loaded
            # machine or an unlucky heuristic must not turn into a verdict either way); at most three
            # such retries per case, so that a hint whose queries are all hard costs minutes, not hours
            s2 = z3.Solver()
            s2.set('timeout', 60000)
            s2.set('random_seed', 7)
            s2.add(self.enc.base_constraints())
            s2.add(*formulas)
            t0 = time.time()
            res = str(s2.check())
            self.stats['solver_s'] += time.time() - t0
            self.stats['queries'] += 1
            self.stats['retried_unknown'] = self.stats.get('retried_unknown', 0) + 1
            m = s2.model() if res == 'sat' else None
        self.stats[res] += 1
        return res, m


def write_replay(prop, payload, replay_dir=None):
    replay_dir = replay_dir or os.path.join(os.path.dirname(os.path.dirname(__file__)), 'replays')
    os.makedirs(replay_dir, exist_ok=True)
    blob = json.dumps(payload, sort_keys=True, default=str)
    h = hashlib.sha1(blob.encode()).hexdigest()[:12]
    path = os.path.join(replay_dir, f'{prop}-{h}.json')
    with open(path, 'w') as f:
        f.write(blob)
    return path
