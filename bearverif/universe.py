"""The symbolic Python-object universe (the trusted model, DESIGN §2).

Sort ``Obj`` is uninterpreted; ``cls: Obj -> Cls`` ranges over a finite
enumeration of *real* classes.  ``isinstance`` is a table computed by calling the
real ``isinstance`` on a sample instance of every class at encode time.
Container structure: ``len``, ``item`` (iteration order; equals ``__getitem__``
for sequences), ``val`` (mapping lookup), ``haskey``.  Scalar payloads:
``ival`` / ``fval`` / ``sval`` / ``bval`` / ``emem``.  Class objects: ``denotes``.

Two modes: *bounded* (ground well-formedness constraints on every registered
term; models can be reified into real objects) and *unbounded* (additionally a
few quantified axioms with E-matching patterns; only ``unsat`` is trusted).
"""
from __future__ import annotations
import abc
import collections
import collections.abc as cabc
import enum
import fractions
import itertools
import types
import typing
import z3

from . import userclasses as uc

# --------------------------------------------------------------------------- classes

_dk = type({}.keys())
_dv = type({}.values())
_di = type({}.items())
_li = type(iter([]))
_gen = type((x for x in ()))
_fn = types.FunctionType
_ProtoMeta = type(uc.UProto)

# name, python class, kind
CLASSES = [
    ('object', object, 'plain'),
    ('int', int, 'int'),
    ('bool', bool, 'bool'),
    ('float', float, 'float'),
    ('complex', complex, 'complex'),
    ('str', str, 'str'),
    ('bytes', bytes, 'bytes'),
    ('NoneType', type(None), 'none'),
    ('function', _fn, 'plain'),
    ('list', list, 'seq'),
    ('tuple', tuple, 'seq'),
    ('range', range, 'range'),
    ('deque', collections.deque, 'seq'),
    ('set', set, 'coll'),
    ('frozenset', frozenset, 'coll'),
    ('dict', dict, 'map'),
    ('defaultdict', collections.defaultdict, 'map'),
    ('OrderedDict', collections.OrderedDict, 'map'),
    ('Counter', collections.Counter, 'map'),
    ('ChainMap', collections.ChainMap, 'map'),
    ('dict_keys', _dk, 'coll'),
    ('dict_values', _dv, 'coll'),
    ('dict_items', _di, 'coll'),
    ('list_iterator', _li, 'iter1'),
    ('generator', _gen, 'iter1'),
    ('UA', uc.UA, 'plain'),
    ('UB', uc.UB, 'plain'),
    ('UC', uc.UC, 'plain'),
    ('UH', uc.UH, 'plain'),
    ('UImpl', uc.UImpl, 'plain'),
    ('USeq', uc.USeq, 'seq'),
    ('UMutSeq', uc.UMutSeq, 'seq'),
    ('USet', uc.USet, 'coll'),
    ('UColl', uc.UColl, 'coll'),
    ('UMap', uc.UMap, 'map'),
    ('UPatchSeq', uc.UPatchSeq, 'seq'),
    ('UPatchMap', uc.UPatchMap, 'map'),
    ('UIterable', uc.UIterable, 'iterable'),
    ('UIterator', uc.UIterator, 'iter1'),
    ('USizedIterator', uc.USizedIterator, 'iter1'),
    ('UContainer', uc.UContainer, 'plain'),
    ('UReversible', uc.UReversible, 'iterable'),
    ('UGenList', uc.UGenList, 'seq'),
    ('UGenList2', uc.UGenList2, 'seq'),
    ('UIntList', uc.UIntList, 'seq'),
    ('UTagged', uc.UTagged, 'seq'),
    ('UGenDict', uc.UGenDict, 'map'),
    ('UGenPlain', uc.UGenPlain, 'plain'),
    ('EColor', uc.EColor, 'enum'),
    ('ENum', uc.ENum, 'intenum'),
    # class objects, by metaclass
    ('type', type, 'meta'),
    ('ABCMeta', abc.ABCMeta, 'meta'),
    ('ProtocolMeta', _ProtoMeta, 'meta'),
]
NAMES = [c[0] for c in CLASSES]
PYCLS = {c[0]: c[1] for c in CLASSES}
KIND = {c[0]: c[2] for c in CLASSES}
NAME_OF = {c[1]: c[0] for c in CLASSES}

# classes a class object may denote (enum classes excluded: EnumType makes the class
# itself a sized iterable, which the universe does not model; stated in DESIGN §2)
DENOTABLE = [n for n in NAMES if KIND[n] not in ('enum', 'intenum')]
# extra denotable ABCs: class objects such as collections.abc.Sequence itself
EXTRA_DENOTABLE = [
    ('abc_Sequence', cabc.Sequence), ('abc_Mapping', cabc.Mapping),
    ('abc_Iterable', cabc.Iterable), ('UProto', uc.UProto),
]

HASHABLE_ATOMS = ['object', 'int', 'bool', 'float', 'complex', 'str', 'bytes', 'NoneType',
                  'function', 'UA', 'UB', 'UC', 'UH', 'UImpl', 'UContainer', 'UGenPlain',
                  'EColor', 'ENum', 'type', 'ABCMeta', 'ProtocolMeta', 'range',
                  'UIterable', 'UIterator', 'USizedIterator', 'UReversible', 'list_iterator', 'generator',
                  'USeq', 'UColl', 'dict_values', 'UPatchSeq']
HASHABLE_DEEP = ['tuple', 'frozenset']
NEEDS_HASHABLE_ITEMS = ['set', 'frozenset', 'dict', 'defaultdict', 'OrderedDict', 'Counter',
                        'ChainMap', 'dict_keys', 'USet', 'UMap', 'UGenDict', 'UPatchMap']

STR_CONSTS = {'': 0, 'a': 1, 'b': 2, 'ab': 3, 'r': 4, 'g': 5}
BYTES_CONSTS = {b'': 0, b'a': 1, b'b': 2}
ENUM_MEMBERS = {'EColor': list(uc.EColor), 'ENum': list(uc.ENum)}
ATTR_NAMES = ['n', 'm', 'k']


def _sample(name):
    """A canonical real instance of universe class ``name`` (for the isinstance table)."""
    return build(_sample_spec(name))


def _sample_spec(name):
    k = KIND[name]
    if k in ('seq', 'coll', 'iter1', 'iterable', 'range'):
        return {'c': name, 'items': []}
    if k == 'map':
        return {'c': name, 'pairs': []}
    if k == 'meta':
        return {'c': name, 'denotes': {'type': 'int', 'ABCMeta': 'USeq', 'ProtocolMeta': 'UProto'}[name]}
    if k in ('enum', 'intenum'):
        return {'c': name, 'm': 0}
    return {'c': name}


def build(spec):
    """Build a real Python object from a JSON-able spec (and register the verdicts the
    solver model assigned to Is[...] predicates on it)."""
    obj = _build(spec)
    if 'preds' in spec:
        from . import grammar
        for name, val in spec['preds'].items():
            grammar.PREDS[name].table[grammar.TablePred.key(obj)] = val
            grammar._KEEP.append(obj)
    return obj


def _hashable_obj(o):
    try:
        hash(o)
        return True
    except TypeError:
        return False


def _safe_build(spec):
    """Sub-objects the encoding never looked at (attribute values beyond the registered depth)
    may come out of the model malformed: fall back to a harmless scalar."""
    try:
        return build(spec)
    except Exception:
        return 0


def _key(obj):
    try:
        hash(obj)
        return obj
    except TypeError:
        return object()


def _build(spec):
    c = spec['c']
    k = KIND[c]
    if k == 'int':
        return int(spec.get('v', 0))
    if k == 'bool':
        return bool(spec.get('v', 0))
    if k == 'float':
        return float(fractions.Fraction(spec.get('v', '0')))
    if k == 'complex':
        return complex(float(fractions.Fraction(spec.get('v', '0'))), 0.0)
    if k == 'str':
        return spec.get('v', '')
    if k == 'bytes':
        return bytes(spec.get('v', ''), 'latin1')
    if k == 'none':
        return None
    if k in ('enum', 'intenum'):
        return ENUM_MEMBERS[c][spec.get('m', 0)]
    if k == 'meta':
        d = spec['denotes']
        return dict(EXTRA_DENOTABLE).get(d) or PYCLS[d]
    if k == 'range':
        return range(len(spec.get('items', [])))
    if k in ('seq', 'coll', 'iter1', 'iterable'):
        items = [build(s) for s in spec.get('items', [])]
        if c == 'list':
            return items
        if c == 'tuple':
            return tuple(items)
        if c == 'deque':
            return collections.deque(items)
        if c == 'set':
            return set(_key(i) for i in items)
        if c == 'frozenset':
            return frozenset(_key(i) for i in items)
        if c == 'dict_keys':
            return dict.fromkeys(i for i in items if _hashable_obj(i)).keys()
        if c == 'dict_values':
            return dict(enumerate(items)).values()
        if c == 'dict_items':
            return dict(i for i in items if isinstance(i, tuple) and len(i) == 2 and _hashable_obj(i[0])).items()
        if c == 'list_iterator':
            return iter(items)
        if c == 'generator':
            return (x for x in items)
        return PYCLS[c](items)
    if k == 'map':
        # (a model may leave terms below the registered depth unconstrained: an unhashable key there is
        # replaced by a fresh hashable object so that the object can still be built; the replay decides)
        pairs = [(_key(build(a)), build(b)) for a, b in spec.get('pairs', [])]
        if c == 'dict':
            return dict(pairs)
        if c == 'defaultdict':
            return collections.defaultdict(int, pairs)
        if c == 'OrderedDict':
            return collections.OrderedDict(pairs)
        if c == 'Counter':
            r = collections.Counter()
            for a, b in pairs:
                r[a] = b
            return r
        if c == 'ChainMap':
            return collections.ChainMap(dict(pairs))
        return PYCLS[c](pairs)
    if c == 'object':
        return object()
    if c == 'function':
        return uc.ufunc
    if c == 'UH':
        return uc.UH(**{a: _safe_build(v) for a, v in spec.get('attrs', {}).items()})
    if c in ('UA', 'UB'):
        o = PYCLS[c]()
        if 'attrs' in spec and 'n' in spec['attrs']:
            o.n = _safe_build(spec['attrs']['n'])
        return o
    return PYCLS[c]()


def spec_of(obj, depth=6):
    """Inverse of build for objects whose exact type is a universe class; None otherwise."""
    t = type(obj)
    if isinstance(obj, type):
        for n, c in list(PYCLS.items()) + EXTRA_DENOTABLE:
            if c is obj and n in DENOTABLE + [e[0] for e in EXTRA_DENOTABLE]:
                mn = NAME_OF.get(type(obj))
                if mn is None:
                    return None
                return {'c': mn, 'denotes': n}
        return None
    name = NAME_OF.get(t)
    if name is None or depth < 0:
        return None
    k = KIND[name]
    if k in ('int', 'bool'):
        return {'c': name, 'v': int(obj)}
    if k in ('float',):
        if obj != obj or obj in (float('inf'), float('-inf')):
            return None
        return {'c': name, 'v': str(fractions.Fraction(obj))}
    if k == 'complex':
        if obj.imag != 0:
            return None
        return {'c': name, 'v': str(fractions.Fraction(obj.real))}
    if k == 'str':
        return {'c': name, 'v': obj}
    if k == 'bytes':
        return {'c': name, 'v': obj.decode('latin1')}
    if k in ('enum', 'intenum'):
        return {'c': name, 'm': ENUM_MEMBERS[name].index(obj)}
    if k == 'range':
        if obj.start != 0 or obj.step != 1:
            return None
        return {'c': name, 'items': [{'c': 'int', 'v': i} for i in obj]}
    if k in ('seq', 'coll', 'iterable'):
        src = obj._i if hasattr(obj, '_i') else list(obj)
        items = [spec_of(i, depth - 1) for i in src]
        if any(i is None for i in items):
            return None
        return {'c': name, 'items': items}
    if k == 'iter1':
        return None
    if k == 'map':
        src = obj._d if hasattr(obj, '_d') else obj
        pairs = [(spec_of(a, depth - 1), spec_of(src[a], depth - 1)) for a in list(src)]
        if any(a is None or b is None for a, b in pairs):
            return None
        return {'c': name, 'pairs': [list(p) for p in pairs]}
    if name in ('UH', 'UA', 'UB'):
        attrs = {a: spec_of(v, depth - 1) for a, v in vars(obj).items()}
        if any(v is None for v in attrs.values()):
            return None
        return {'c': name, 'attrs': attrs}
    if name == 'function':
        return {'c': name} if obj is uc.ufunc else None
    return {'c': name}


# --------------------------------------------------------------------------- z3 universe

_SORTS = None


def _sorts():
    global _SORTS
    if _SORTS is None:
        Obj = z3.DeclareSort('Obj')
        Cls, consts = z3.EnumSort('Cls', ['K_' + n for n in NAMES] + ['K_' + e[0] for e in EXTRA_DENOTABLE])
        _SORTS = (Obj, Cls, dict(zip(NAMES + [e[0] for e in EXTRA_DENOTABLE], consts)))
    return _SORTS


class Universe:
    """z3 declarations + helpers.  One instance per solver query family."""

    def __init__(self, bound=None):
        """bound: max container length (bounded mode) or None (unbounded mode)."""
        self.bound = bound
        self.Obj, self.Cls, self.K = _sorts()
        O, C, I, B, R = self.Obj, self.Cls, z3.IntSort(), z3.BoolSort(), z3.RealSort()
        self.cls = z3.Function('cls', O, C)
        self.len = z3.Function('len', O, I)
        self.item = z3.Function('item', O, I, O)
        self.val = z3.Function('val', O, O, O)
        self.haskey = z3.Function('haskey', O, O, B)
        self.ival = z3.Function('ival', O, I)
        self.fval = z3.Function('fval', O, R)
        self.sval = z3.Function('sval', O, I)
        self.bval = z3.Function('bval', O, I)
        self.emem = z3.Function('emem', O, I)
        self.denotes = z3.Function('denotes', O, C)
        self.truthy = z3.Function('truthy', O, B)
        self.dh = z3.Function('dh', O, B)
        self.hasattr = z3.Function('hasattr', O, I, B)
        self.attr = z3.Function('attr', O, I, O)
        self.pmod = z3.Function('pymod', I, I, I)
        self._preds = {}
        self._consts = {}
        self._const_objs = []
        self._inst_cache = {}
        self._sub_cache = {}
        self.terms = []          # registered Obj terms (with parent info) for ground WF
        self._term_ids = set()
        self._samples = {n: _sample(n) for n in NAMES}
        self.fresh_n = 0
        self.lemmas = []         # definitional constraints shared by every translation (mod terms)
        self._mods = {}
        self.inexact = []

    # ---- Python's % (result takes the sign of the modulus); one index variable per (a, m)
    def pymod(self, a, m):
        key = (a.get_id(), m.get_id())
        hit = self._mods.get(key)
        if hit is not None:
            return hit[0]
        self.fresh_n += 1
        # an application of an uninterpreted function, so that congruence identifies
        # r % len(a) with r % len(b) whenever a == b; its meaning comes from the lemmas below
        idx = self.pmod(a, m)
        self._mods[key] = (idx, a, m)
        L = self.lemmas
        L.append(z3.Implies(m > 0, z3.And(idx >= 0, idx < m)))
        L.append(z3.Implies(m < 0, z3.And(idx <= 0, idx > m)))
        L.append(z3.Implies(z3.And(m > 0, a >= 0, a < m), idx == a))
        if z3.is_int_value(m):
            k = m.as_long()
            if k > 0:
                L.append(idx == a % k)
            elif k < 0:
                L.append(idx == -((-a) % (-k)))
        elif self.bound is not None:
            rng = self.bound + 2
            for k in range(-rng, rng + 1):
                if k > 0:
                    L.append(z3.Implies(m == k, idx == a % k))
                elif k < 0:
                    L.append(z3.Implies(m == k, idx == -((-a) % (-k))))
            self.inexact.append(('mod-range', rng))
        else:
            q = z3.Int(f'quo{self.fresh_n}')
            L.append(z3.Implies(m != 0, a == q * m + idx))
        return idx

    def constraints(self):
        cs = self.wf_all() + list(self.lemmas)
        if self.bound is None:
            cs += self.axioms_unbounded()
        return cs

    # ---- terms
    def obj(self, name):
        t = z3.Const(name, self.Obj)
        self.register(t)
        return t

    def register(self, t, parent=None, index=None, via=None):
        key = t.get_id()
        if key in self._term_ids:
            return t
        self._term_ids.add(key)
        self.terms.append((t, parent, index, via))
        return t

    def item_of(self, p, i):
        """item(p, i) with concrete or symbolic index i (z3 Int or python int)."""
        iz = z3.IntVal(i) if isinstance(i, int) else i
        t = self.item(p, iz)
        self.register(t, p, i, 'item')
        return t

    def val_of(self, p, k):
        t = self.val(p, k)
        self.register(t, p, k, 'val')
        return t

    def attr_of(self, p, name):
        t = self.attr(p, self.attr_index(name))
        self.register(t, p, name, 'attr')
        return t

    def attr_index(self, name):
        if name not in ATTR_NAMES:
            raise Unsupported(f'attribute name {name!r} outside the modelled set {ATTR_NAMES}')
        return ATTR_NAMES.index(name)

    def const_obj(self, pyobj):
        """A distinguished Obj constant standing for a concrete beartype-internal
        object compared by identity (sentinels)."""
        k = id(pyobj)
        if k not in self._consts:
            t = z3.Const(f'const_{len(self._consts)}', self.Obj)
            self._consts[k] = t
            self._const_objs.append(t)
        return self._consts[k]

    def pred(self, f):
        """Predicate standing for user callable ``f`` (Is[f]): uninterpreted, but a function
        of the *value* for value-typed scalars (two equal ints are one Python object), of the
        object identity otherwise.  Returns a python callable term -> z3 Bool."""
        k = id(f)
        if k not in self._preds:
            n = len(self._preds)
            B = z3.BoolSort()
            fs = {'obj': z3.Function(f'P{n}', self.Obj, B),
                  'int': z3.Function(f'P{n}_int', z3.IntSort(), B),
                  'bool': z3.Function(f'P{n}_bool', z3.IntSort(), B),
                  'str': z3.Function(f'P{n}_str', z3.IntSort(), B),
                  'bytes': z3.Function(f'P{n}_bytes', z3.IntSort(), B),
                  'float': z3.Function(f'P{n}_float', z3.RealSort(), B),
                  'none': z3.Bool(f'P{n}_none')}
            U = self

            def app(t, fs=fs):
                K = U.K
                return z3.If(U.cls(t) == K['int'], fs['int'](U.ival(t)),
                       z3.If(U.cls(t) == K['bool'], fs['bool'](U.ival(t)),
                       z3.If(U.cls(t) == K['str'], fs['str'](U.sval(t)),
                       z3.If(U.cls(t) == K['bytes'], fs['bytes'](U.bval(t)),
                       z3.If(U.cls(t) == K['float'], fs['float'](U.fval(t)),
                       z3.If(U.cls(t) == K['NoneType'], fs['none'], fs['obj'](t)))))))
            self._preds[k] = (app, f)
        return self._preds[k][0]

    # ---- class tests
    def classes_instance_of(self, C):
        """Universe class names whose instances satisfy isinstance(., C) — real Python."""
        key = id(C) if not isinstance(C, tuple) else tuple(id(c) for c in C)
        r = self._inst_cache.get(key)
        if r is None:
            r = []
            for n in NAMES:
                try:
                    ok = isinstance(self._samples[n], C)
                except Exception as e:
                    raise IsinstanceRaises(f'isinstance(<{n}>, {C!r}) raised {type(e).__name__}: {str(e)[:300]}')
                if ok:
                    r.append(n)
            self._inst_cache[key] = (r, C)   # keep C alive so id() stays unique
            return r
        return r[0]

    def classes_subclass_of(self, C):
        key = id(C) if not isinstance(C, tuple) else tuple(id(c) for c in C)
        r = self._sub_cache.get(key)
        if r is None:
            r = []
            for n, pc in [(n, PYCLS[n]) for n in DENOTABLE] + EXTRA_DENOTABLE:
                try:
                    ok = issubclass(pc, C)
                except Exception as e:
                    raise Unsupported(f'issubclass({n}, {C!r}) raised {type(e).__name__}: {e}')
                if ok:
                    r.append(n)
            self._sub_cache[key] = (r, C)
            return r
        return r[0]

    def in_classes(self, t, names):
        names = list(names)
        if not names:
            return z3.BoolVal(False)
        if len(names) == len(NAMES):
            return z3.BoolVal(True)
        return z3.Or([self.cls(t) == self.K[n] for n in names])

    def isinstance(self, t, C):
        return self.in_classes(t, self.classes_instance_of(C))

    def is_class_obj(self, t):
        return self.in_classes(t, [n for n in NAMES if KIND[n] == 'meta'])

    def issubclass(self, t, C):
        """t is a class object; formula for issubclass(t, C)."""
        names = self.classes_subclass_of(C)
        if not names:
            return z3.BoolVal(False)
        return z3.Or([self.denotes(t) == self.K[n] for n in names])

    def kind_in(self, t, kinds):
        return self.in_classes(t, [n for n in NAMES if KIND[n] in kinds])

    def sized(self, t):
        return self.in_classes(t, [n for n in NAMES if hasattr(PYCLS[n], '__len__') and KIND[n] != 'meta'])

    def int_indexable(self, t):
        return self.kind_in(t, ('seq', 'str', 'bytes', 'range'))

    def is_mapping(self, t):
        return self.kind_in(t, ('map',))

    def iterable_items(self, t):
        """Objects whose iteration yields item(t, 0..len-1)."""
        return self.kind_in(t, ('seq', 'str', 'bytes', 'range', 'coll', 'map', 'iter1', 'iterable'))

    def one_shot(self, t):
        return self.kind_in(t, ('iter1',))

    def is_numeric_int(self, t):
        return self.kind_in(t, ('int', 'bool', 'intenum'))

    def numval(self, t):
        return z3.If(self.kind_in(t, ('float', 'complex')), self.fval(t), z3.ToReal(self.ival(t)))

    # ---- equality against a concrete constant
    def eq_const(self, t, v):
        if v is None:
            return self.cls(t) == self.K['NoneType']
        if isinstance(v, enum.Enum) and not isinstance(v, int):
            n = NAME_OF.get(type(v))
            if n is None:
                raise Unsupported(f'enum literal {v!r} outside universe')
            return z3.And(self.cls(t) == self.K[n], self.emem(t) == ENUM_MEMBERS[n].index(v))
        if isinstance(v, (bool, int)):
            iv = int(v)
            return z3.Or(z3.And(self.is_numeric_int(t), self.ival(t) == iv),
                         z3.And(self.kind_in(t, ('float', 'complex')), self.fval(t) == iv))
        if isinstance(v, float):
            fr = fractions.Fraction(v)
            q = z3.Q(fr.numerator, fr.denominator)
            c = z3.And(self.kind_in(t, ('float', 'complex')), self.fval(t) == q)
            if fr.denominator == 1:
                c = z3.Or(c, z3.And(self.is_numeric_int(t), self.ival(t) == fr.numerator))
            return c
        if isinstance(v, str):
            if v not in STR_CONSTS:
                raise Unsupported(f'str constant {v!r} outside {list(STR_CONSTS)}')
            return z3.And(self.kind_in(t, ('str',)), self.sval(t) == STR_CONSTS[v])
        if isinstance(v, bytes):
            if v not in BYTES_CONSTS:
                raise Unsupported(f'bytes constant {v!r} outside {list(BYTES_CONSTS)}')
            return z3.And(self.kind_in(t, ('bytes',)), self.bval(t) == BYTES_CONSTS[v])
        raise Unsupported(f'== against {type(v).__name__} constant')

    # ---- well-formedness
    def wf_term(self, t, parent, index, via):
        U = self
        c = [U.len(t) >= 0]
        K = U.K
        # the extra constants of the class sort only ever name what a class object *denotes*
        # (collections.abc.Sequence itself, ...); no object is an instance of them
        c.extend(U.cls(t) != K[e[0]] for e in EXTRA_DENOTABLE)
        c.append(z3.Implies(U.cls(t) == K['bool'], z3.And(U.ival(t) >= 0, U.ival(t) <= 1)))
        # truthiness of the classes the generated code may test with `not x`
        c.append(z3.Implies(U.sized(t), U.truthy(t) == (U.len(t) != 0)))
        c.append(z3.Implies(U.cls(t) == K['NoneType'], z3.Not(U.truthy(t))))
        c.append(z3.Implies(U.is_numeric_int(t), U.truthy(t) == (U.ival(t) != 0)))
        c.append(z3.Implies(U.kind_in(t, ('float', 'complex')), U.truthy(t) == (U.fval(t) != 0)))
        # objects defining neither __bool__ nor __len__ are always true
        always = [n for n in NAMES if KIND[n] != 'meta' and not hasattr(PYCLS[n], '__len__')
                  and not hasattr(PYCLS[n], '__bool__') and KIND[n] not in ('int', 'bool', 'float', 'complex', 'none', 'intenum')]
        always += [n for n in NAMES if KIND[n] == 'meta']
        c.append(z3.Implies(U.in_classes(t, always), U.truthy(t)))
        # known string constants fix the length
        for s, code in STR_CONSTS.items():
            c.append(z3.Implies(z3.And(U.cls(t) == K['str'], U.sval(t) == code), U.len(t) == len(s)))
        c.append(z3.Implies(z3.And(U.cls(t) == K['str'], U.len(t) == 0), U.sval(t) == 0))
        for s, code in BYTES_CONSTS.items():
            c.append(z3.Implies(z3.And(U.cls(t) == K['bytes'], U.bval(t) == code), U.len(t) == len(s)))
        c.append(z3.Implies(z3.And(U.cls(t) == K['bytes'], U.len(t) == 0), U.bval(t) == 0))
        c.append(z3.Implies(U.cls(t) == K['EColor'], z3.And(U.emem(t) >= 0, U.emem(t) < 2)))
        c.append(z3.Implies(U.cls(t) == K['ENum'],
                            z3.And(U.emem(t) >= 0, U.emem(t) < 2, U.ival(t) == U.emem(t) + 1)))
        # class objects
        for meta in ('type', 'ABCMeta', 'ProtocolMeta'):
            den = [n for n, pc in [(n, PYCLS[n]) for n in DENOTABLE] + EXTRA_DENOTABLE if type(pc) is PYCLS[meta]]
            c.append(z3.Implies(U.cls(t) == K[meta],
                                z3.Or([U.denotes(t) == K[n] for n in den]) if den else z3.BoolVal(False)))
        # deep hashability
        c.append(z3.Implies(U.dh(t), U.in_classes(t, HASHABLE_ATOMS + HASHABLE_DEEP)))
        # attributes
        for ai, an in enumerate(ATTR_NAMES):
            always = [n for n in NAMES if KIND[n] != 'meta' and hasattr(self._samples[n], an) and n != 'UH']
            maybe = always + ['UH']
            c.append(z3.Implies(U.hasattr(t, ai), U.in_classes(t, maybe)))
            if always:
                c.append(z3.Implies(U.in_classes(t, always), U.hasattr(t, ai)))
        # sentinels are never user objects
        for s in U._const_objs:
            if s.get_id() != t.get_id():
                c.append(t != s)
        if parent is not None and via == 'item':
            p = parent
            c.append(z3.Implies(U.cls(p) == K['str'], z3.And(U.cls(t) == K['str'], U.len(t) == 1)))
            # a one-character string is its own only character
            c.append(z3.Implies(z3.And(U.cls(p) == K['str'], U.len(p) == 1), U.sval(t) == U.sval(p)))
            if isinstance(index, int):
                for sconst, code in STR_CONSTS.items():
                    if index < len(sconst) and sconst[index] in STR_CONSTS:
                        c.append(z3.Implies(z3.And(U.cls(p) == K['str'], U.sval(p) == code),
                                            U.sval(t) == STR_CONSTS[sconst[index]]))
            c.append(z3.Implies(U.cls(p) == K['bytes'],
                                z3.And(U.cls(t) == K['int'], U.ival(t) >= 0, U.ival(t) < 256)))
            iz = z3.IntVal(index) if isinstance(index, int) else index
            c.append(z3.Implies(U.cls(p) == K['range'], z3.And(U.cls(t) == K['int'], U.ival(t) == iz)))
            c.append(z3.Implies(U.cls(p) == K['dict_items'],
                                z3.And(U.cls(t) == K['tuple'], U.len(t) == 2, U.dh(U.item(t, 0)))))
            c.append(z3.Implies(U.in_classes(p, NEEDS_HASHABLE_ITEMS), U.dh(t)))
            c.append(z3.Implies(z3.And(U.dh(p), U.in_classes(p, HASHABLE_DEEP)), U.dh(t)))
            c.append(z3.Implies(z3.And(U.is_mapping(p), iz >= 0, iz < U.len(p)), U.haskey(p, t)))
        return c

    def wf_all(self):
        """Ground well-formedness of every registered term (+ pairwise key distinctness)."""
        out = []
        # registering may grow self.terms (dict_items adds item(t,0)); iterate by index
        i = 0
        while i < len(self.terms):
            t, parent, index, via = self.terms[i]
            out.extend(self.wf_term(t, parent, index, via))
            i += 1
        # distinct keys of hash containers (concrete indices only)
        by_parent = {}
        for t, parent, index, via in self.terms:
            if via == 'item' and isinstance(index, int):
                by_parent.setdefault(parent.get_id(), (parent, []))[1].append((index, t))
        for pid, (p, kids) in by_parent.items():
            kids.sort(key=lambda x: x[0])
            for (i1, a), (i2, b) in itertools.combinations(kids, 2):
                out.append(z3.Implies(
                    z3.And(self.in_classes(p, NEEDS_HASHABLE_ITEMS), i2 < self.len(p)),
                    self.distinct_keys(a, b)))
        if self.bound is not None:
            for t, *_ in self.terms:
                out.append(self.len(t) <= self.bound)
        return out

    def distinct_keys(self, a, b):
        U = self
        num = lambda t: U.kind_in(t, ('int', 'bool', 'intenum', 'float', 'complex'))
        return z3.And(
            a != b,
            z3.Not(z3.And(U.cls(a) == U.K['NoneType'], U.cls(b) == U.K['NoneType'])),
            z3.Implies(z3.And(num(a), num(b)), U.numval(a) != U.numval(b)),
            z3.Implies(z3.And(U.kind_in(a, ('str',)), U.kind_in(b, ('str',))), U.sval(a) != U.sval(b)),
            z3.Implies(z3.And(U.kind_in(a, ('bytes',)), U.kind_in(b, ('bytes',))), U.bval(a) != U.bval(b)),
            z3.Implies(z3.And(U.cls(a) == U.cls(b), U.kind_in(a, ('enum',))), U.emem(a) != U.emem(b)),
            # objects without value equality are distinct as terms (a != b above); empty
            # tuples / frozensets are equal to each other
            z3.Not(z3.And(U.cls(a) == U.cls(b), U.in_classes(a, HASHABLE_DEEP), U.len(a) == 0, U.len(b) == 0)),
        )

    def axioms_unbounded(self):
        """Quantified counterparts of the ground constraints that matter for `unsat`."""
        U = self
        o = z3.Const('o_ax', U.Obj)
        i = z3.Int('i_ax')
        K = U.K
        ax = [
            z3.ForAll([o], U.len(o) >= 0, patterns=[U.len(o)]),
            z3.ForAll([o], z3.And([U.cls(o) != K[e[0]] for e in EXTRA_DENOTABLE]), patterns=[U.cls(o)]),
            z3.ForAll([o], z3.Implies(U.cls(o) == K['bool'], z3.And(U.ival(o) >= 0, U.ival(o) <= 1)),
                      patterns=[U.ival(o)]),
            z3.ForAll([o, i], z3.Implies(U.cls(o) == K['str'],
                                         z3.And(U.cls(U.item(o, i)) == K['str'], U.len(U.item(o, i)) == 1)),
                      patterns=[U.item(o, i)]),
            z3.ForAll([o, i], z3.Implies(z3.And(U.cls(o) == K['str'], U.len(o) == 1),
                                         U.sval(U.item(o, i)) == U.sval(o)),
                      patterns=[U.item(o, i)]),
            z3.ForAll([o, i], z3.Implies(U.cls(o) == K['bytes'], U.cls(U.item(o, i)) == K['int']),
                      patterns=[U.item(o, i)]),
            z3.ForAll([o, i], z3.Implies(U.cls(o) == K['range'], U.cls(U.item(o, i)) == K['int']),
                      patterns=[U.item(o, i)]),
            z3.ForAll([o, i], z3.Implies(U.cls(o) == K['dict_items'],
                                         z3.And(U.cls(U.item(o, i)) == K['tuple'], U.len(U.item(o, i)) == 2)),
                      patterns=[U.item(o, i)]),
            z3.ForAll([o, i], z3.Implies(z3.And(U.is_mapping(o), i >= 0, i < U.len(o)),
                                         U.haskey(o, U.item(o, i))),
                      patterns=[U.item(o, i)]),
        ]
        return ax

    # ---- quantification over items
    def forall_items(self, p, body, what='item'):
        """'for every i in range(len(p)): body(item(p,i))' — expanded when bounded,
        a pattern-guarded quantifier otherwise.  body: Obj term -> Bool."""
        if self.bound is not None:
            cs = []
            for i in range(self.bound):
                t = self.item_of(p, i)
                cs.append(z3.Implies(i < self.len(p), body(t)))
            return z3.And(cs) if cs else z3.BoolVal(True)
        self.fresh_n += 1
        i = z3.Int(f'q{self.fresh_n}')
        t = self.item(p, i)
        return z3.ForAll([i], z3.Implies(z3.And(i >= 0, i < self.len(p)), body(t)), patterns=[t])

    def exists_item(self, p, body):
        if self.bound is not None:
            cs = []
            for i in range(self.bound):
                t = self.item_of(p, i)
                cs.append(z3.And(i < self.len(p), body(t)))
            return z3.Or(cs) if cs else z3.BoolVal(False)
        self.fresh_n += 1
        i = z3.Int(f'e{self.fresh_n}')
        t = self.item(p, i)
        return z3.Exists([i], z3.And(i >= 0, i < self.len(p), body(t)))

    # ---- model -> spec
    def reify(self, m, t, depth=5):
        spec = self._reify(m, t, depth)
        if self._preds:
            pv = {}
            for zf, f in self._preds.values():
                p = getattr(f, '_pred', None)
                if p is not None:
                    pv[p.name] = bool(z3.is_true(m.eval(zf(t), model_completion=True)))
            if pv:
                spec['preds'] = pv
        return spec

    def _reify(self, m, t, depth=5):
        ev = lambda e: m.eval(e, model_completion=True)
        cname = str(ev(self.cls(t)))[2:]
        if cname not in KIND:
            return {'c': 'object'}
        k = KIND[cname]
        if k in ('int',):
            return {'c': cname, 'v': ev(self.ival(t)).as_long()}
        if k == 'bool':
            return {'c': cname, 'v': 1 if ev(self.ival(t)).as_long() else 0}
        if k in ('float', 'complex'):
            f = ev(self.fval(t))
            fr = fractions.Fraction(f.numerator_as_long(), f.denominator_as_long()) if z3.is_rational_value(f) else fractions.Fraction(0)
            return {'c': cname, 'v': str(fr)}
        n = ev(self.len(t)).as_long()
        if k == 'str':
            code = ev(self.sval(t)).as_long()
            for s, c in STR_CONSTS.items():
                if c == code and len(s) == n:
                    return {'c': cname, 'v': s}
            return {'c': cname, 'v': chr(ord('h') + code % 15) * max(n, 0)}
        if k == 'bytes':
            code = ev(self.bval(t)).as_long()
            for s, c in BYTES_CONSTS.items():
                if c == code and len(s) == n:
                    return {'c': cname, 'v': s.decode('latin1')}
            return {'c': cname, 'v': chr(ord('h') + code % 15) * max(n, 0)}
        if k in ('enum', 'intenum'):
            return {'c': cname, 'm': ev(self.emem(t)).as_long() % 2}
        if k == 'meta':
            d = str(ev(self.denotes(t)))[2:]
            return {'c': cname, 'denotes': d}
        if k in ('seq', 'coll', 'iter1', 'iterable', 'range'):
            if depth <= 0 or n > 64:
                return {'c': cname, 'items': []}
            return {'c': cname, 'items': [self.reify(m, self.item(t, z3.IntVal(i)), depth - 1) for i in range(n)]}
        if k == 'map':
            if depth <= 0 or n > 64:
                return {'c': cname, 'pairs': []}
            pairs = []
            for i in range(n):
                kt = self.item(t, z3.IntVal(i))
                pairs.append([self.reify(m, kt, depth - 1), self.reify(m, self.val(t, kt), depth - 1)])
            return {'c': cname, 'pairs': pairs}
        if cname in ('UH', 'UA', 'UB'):
            attrs = {}
            if depth > 0:
                for ai, an in enumerate(ATTR_NAMES):
                    if z3.is_true(ev(self.hasattr(t, ai))):
                        attrs[an] = self.reify(m, self.attr(t, ai), depth - 1)
            if cname != 'UH':
                attrs = {a: v for a, v in attrs.items() if a == 'n'}
            return {'c': cname, 'attrs': attrs}
        return {'c': cname}

    # ---- concrete object -> constraints on a term (translator validation)
    def abstraction(self, obj, t, depth=6):
        """Constraints pinning term t to the observable structure of real object obj.
        Returns None when obj lies outside the universe."""
        self.register(t)
        U = self
        if isinstance(obj, type):
            mn = NAME_OF.get(type(obj))
            dn = None
            for n, c in [(n, PYCLS[n]) for n in DENOTABLE] + EXTRA_DENOTABLE:
                if c is obj:
                    dn = n
            if mn is None or dn is None or KIND[mn] != 'meta':
                return None
            return [U.cls(t) == U.K[mn], U.denotes(t) == U.K[dn]]
        name = NAME_OF.get(type(obj))
        if name is None or depth < 0:
            return None
        k = KIND[name]
        cs = [U.cls(t) == U.K[name]]
        if k in ('int', 'bool', 'intenum'):
            cs.append(U.ival(t) == int(obj))
        if k in ('enum', 'intenum'):
            cs.append(U.emem(t) == ENUM_MEMBERS[name].index(obj))
        if k == 'float':
            if obj != obj or obj in (float('inf'), float('-inf')):
                return None
            fr = fractions.Fraction(obj)
            cs.append(U.fval(t) == z3.Q(fr.numerator, fr.denominator))
        if k == 'complex':
            if obj.imag != 0:
                return None
            fr = fractions.Fraction(obj.real)
            cs.append(U.fval(t) == z3.Q(fr.numerator, fr.denominator))
        if k == 'str':
            if obj in STR_CONSTS:
                cs.append(U.sval(t) == STR_CONSTS[obj])
            else:
                cs.append(U.sval(t) == 1000 + (hash(obj) % 100000))
            cs.append(U.len(t) == len(obj))
            if depth > 0 and len(obj) <= 3:
                for i, ch in enumerate(obj):
                    sub = U.abstraction(ch, U.item_of(t, i), 0)
                    cs.extend(sub)
            return cs
        if k == 'bytes':
            cs.append(U.bval(t) == BYTES_CONSTS.get(obj, 1000 + (hash(obj) % 100000)))
            cs.append(U.len(t) == len(obj))
            if depth > 0 and len(obj) <= 3:
                for i, byte in enumerate(obj):
                    it = U.item_of(t, i)
                    cs.extend([U.cls(it) == U.K['int'], U.ival(it) == byte])
            return cs
        if k in ('seq', 'coll', 'iterable', 'range'):
            src = obj._i if hasattr(obj, '_i') else list(obj)
            cs.append(U.len(t) == len(src))
            for i, it in enumerate(src):
                sub = U.abstraction(it, U.item_of(t, i), depth - 1)
                if sub is None:
                    return None
                cs.extend(sub)
            return cs
        if k == 'iter1':
            return None
        if k == 'map':
            src = obj._d if hasattr(obj, '_d') else obj
            keys = list(src)
            cs.append(U.len(t) == len(keys))
            for i, key in enumerate(keys):
                kt = U.item_of(t, i)
                sub = U.abstraction(key, kt, depth - 1)
                if sub is None:
                    return None
                cs.extend(sub)
                cs.append(U.haskey(t, kt))
                sub = U.abstraction(src[key], U.val_of(t, kt), depth - 1)
                if sub is None:
                    return None
                cs.extend(sub)
            return cs
        if name in ('UH', 'UA', 'UB'):
            for ai, an in enumerate(ATTR_NAMES):
                if hasattr(obj, an):
                    cs.append(U.hasattr(t, ai))
                    sub = U.abstraction(getattr(obj, an), U.attr_of(t, an), depth - 1)
                    if sub is None:
                        return None
                    cs.extend(sub)
                else:
                    cs.append(z3.Not(U.hasattr(t, ai)))
            return cs
        if name == 'function' and obj is not uc.ufunc:
            return None
        return cs


class Unsupported(Exception):
    """The construct lies outside the translator's / universe's vocabulary."""


class IsinstanceRaises(Unsupported):
    """The real isinstance() against a class-like object of the generated scope raises (e.g. a
    forward-reference proxy that cannot be resolved): the generated code raises there too."""
