"""C12 — validator algebra: generated code == boolean meaning (Engine G part).

For Annotated[T, V1..Vn] with a shallow base T the inline code beartype generates is translated
with Is[f] as an uninterpreted predicate and attributes as hasattr/attr, and shown *equivalent*
(XOR unsat) to the meaning built directly from the expression tree, for all objects — including
objects lacking the attribute and non-class objects for IsSubclass.
"""
from __future__ import annotations
import random
import time
import traceback
from typing import Annotated, List
import z3

from . import grammar, refsem
from . import userclasses as uc
from .core import generate, Encoding, Discharger, PROGRAMS
from .engine_g import CaseOut, oblige, bound_for
from .universe import Unsupported

BASES = [('object', object), ('int', int), ('str', str), ('UA', uc.UA), ('UH', uc.UH), ('type', type)]


def trees(tier, seed):
    if tier == 'quick':
        ts = grammar.validator_trees(1)
        rng = random.Random(seed)
        ts += [grammar.seeded_validator_tree(rng, 4) for _ in range(60)]
    else:
        ts = grammar.validator_trees(2, atoms=grammar.V_ATOMS[:7] + [('attr', 'n', ('eq', 1)), ('attr', 'n', ('attr', 'm', ('is', grammar.P1)))])
        ts += grammar.validator_trees(1)
        rng = random.Random(seed)
        ts += [grammar.seeded_validator_tree(rng, 6) for _ in range(1500)]
    return ts


def cases(tier, seed):
    out = []
    seen = set()
    ts = trees(tier, seed)
    for i, t in enumerate(ts):
        bn, b = BASES[i % len(BASES)] if tier == 'quick' else BASES[i % len(BASES)]
        name = f'Annotated[{bn}, {grammar.tree_str(t)}]'
        if name in seen:
            continue
        seen.add(name)
        out.append((name, (b, [t]), {}, {'gen': 'validators', 'tier': tier, 'seed': seed, 'name': name}))
    # several validators on one Annotated, and validators under containers
    multi = [
        ('int', int, [('eq', 1), ('inst', int)]),
        ('object', object, [('is', grammar.P1), ('not', ('is', grammar.P2)), ('attr', 'n', ('eq', 1))]),
        ('UH', uc.UH, [('attr', 'n', ('inst', int)), ('attr', 'm', ('attr', 'n', ('eq', 1)))]),
        ('object', object, [('attr', 'n', ('is', grammar.P1)), ('attr', 'n', ('not', ('is', grammar.P1)))]),
        ('type', type, [('sub', int), ('not', ('sub', bool))]),
    ]
    for bn, b, vs in multi:
        name = f'Annotated[{bn}, ' + ', '.join(grammar.tree_str(v) for v in vs) + ']'
        out.append((name, (b, vs), {}, {'gen': 'validators', 'tier': tier, 'seed': seed, 'name': name}))
    return out


def build_hint(spec):
    b, vs = spec
    return Annotated[(b,) + tuple(grammar.make_validator(v) for v in vs)]


def hint_by_name(src):
    for name, spec, _kw, _src in cases(src.get('tier', 'quick'), src.get('seed', 0)):
        if name == src['name']:
            return build_hint(spec)
    raise KeyError(src)


def run_case(prop, name, spec, confkw, tier, src):
    out = CaseOut(name, confkw)
    t0 = time.time()
    try:
        hint = build_hint(spec)
        g = generate(hint, confkw)
        if g.error is not None:
            out.skipped = f'{type(g.error).__name__}: {str(g.error)[:100]}'
            return out
        node = refsem.parse(hint)
        enc = Encoding(g, 3, node=node)
        d = Discharger(enc)
        meaning = enc.full()
        out.nontrivial = g.tester is not None
        # vacuity: the meaning is neither valid nor unsatisfiable for most expressions; record it
        rs, _ = d.check(meaning)
        rn, _ = d.check(z3.Not(meaning))
        out.observations.append(f'meaning sat={rs} negation sat={rn}')
        for prog in PROGRAMS:
            pre = [enc.guards['param']] if prog == 'return' else []
            oblige(out, d, enc, 'C12', f'{prog}: generated code xor boolean meaning',
                   pre + [z3.Xor(enc.guards[prog], meaning)], ('vale_disagree', prog), src)
            for sc in enc.side[prog]:
                oblige(out, d, enc, 'C12', f'{prog}: {sc.kind} reachable at `{sc.where}` (e.g. colliding walrus temporaries)',
                       [sc.cond], ('side', prog), src)
        out.queries += d.stats['queries']
        out.solver_s += d.stats['solver_s']
        out.sample = {'hint': name, 'obligation': 'unsat(code(x) xor meaning(x)) over all objects; Is[f] uninterpreted, IsAttr via hasattr/attr',
                      'code': g.tester.code.split('return', 1)[-1][:400] if g.tester else 'True'}
    except Unsupported as e:
        out.inconclusive.append(f'unsupported: {e}')
    except Exception:
        out.inconclusive.append('harness exception: ' + traceback.format_exc()[-600:])
    out.wall = time.time() - t0
    return out
