"""AST -> z3 symbolic evaluator for the code beartype generates (Engine G).

The evaluator runs over the *real* generated source (its Python AST) with the real
scope captured next to it.  Expressions evaluate to symbolic values under a path
condition; short-circuit order is preserved, so a sub-expression's side conditions
(index in range, key present, walrus bound, operand sized, modulus non-zero) are
obligations only under the guard that reaches them.  Statement-level execution
(raisers, wrappers) lives in ``symstmt.py`` and reuses this evaluator.
"""
from __future__ import annotations
import ast
import builtins
import textwrap
import z3

from .universe import Universe, Unsupported, IsinstanceRaises, KIND, NAMES


# --------------------------------------------------------------------------- values

class V:
    pass


class VObj(V):
    __slots__ = ('t',)

    def __init__(self, t):
        self.t = t


class VBool(V):
    __slots__ = ('b',)

    def __init__(self, b):
        self.b = b


class VInt(V):
    __slots__ = ('i',)

    def __init__(self, i):
        self.i = i


class VConc(V):
    __slots__ = ('v',)

    def __init__(self, v):
        self.v = v


class VIter(V):
    """Result of iter(x) / x.values() / x.keys() / x.items() / iter(x.values())."""
    __slots__ = ('src', 'view', 'is_iter')

    def __init__(self, src, view='self', is_iter=False):
        self.src, self.view, self.is_iter = src, view, is_iter


class VCopy(V):
    """A full materialisation of a pith or of one of its views -- list(x), tuple(x), [*x], [*x.values()]: every item
    has been read (a `scan` event of weight len(x) was recorded); items are addressed like the source's."""
    __slots__ = ('src', 'view')

    def __init__(self, src, view='self'):
        self.src, self.view = src, view


class VBoundMethod(V):
    __slots__ = ('recv', 'name')

    def __init__(self, recv, name):
        self.recv, self.name = recv, name


class VArgs(V):
    """The wrapper's *args: symbolic length n (0..maxn) and terms a_0..a_{maxn-1}."""
    __slots__ = ('n', 'terms', 'start')

    def __init__(self, n, terms, start=0):
        self.n, self.terms, self.start = n, terms, start


class VKwargs(V):
    """The wrapper's **kwargs over a finite name alphabet: has[name]: Bool, kw[name]: Obj."""
    __slots__ = ('has', 'kw')

    def __init__(self, has, kw):
        self.has, self.kw = has, kw


class VNameSet(V):
    """kwargs.keys() - frozenset(...): a set of names with presence conditions."""
    __slots__ = ('names',)

    def __init__(self, names):
        self.names = names      # list of (name, cond)


READ_ONLY_BUILTINS = {'isinstance', 'issubclass', 'len', 'next', 'iter', 'getattr', 'callable',
                      'bool', 'type', 'id', 'hasattr'}
LINEAR_BUILTINS = {'all', 'any', 'sum', 'sorted', 'list', 'tuple', 'set', 'frozenset', 'dict',
                   'min', 'max', 'enumerate', 'reversed', 'zip', 'map', 'filter'}
MUTATING_METHODS = {'append', 'pop', 'popitem', 'setdefault', 'update', 'clear', 'remove',
                    'discard', 'add', 'insert', 'extend', 'send', 'throw', 'close', 'sort',
                    'reverse', '__setitem__', '__delitem__', '__next__', 'popleft', 'appendleft',
                    'rotate', 'move_to_end', 'subtract'}


class SideCond:
    __slots__ = ('kind', 'cond', 'where')

    def __init__(self, kind, cond, where):
        self.kind, self.cond, self.where = kind, cond, where   # cond: z3 Bool = "the error is reached"

    def __repr__(self):
        return f'<{self.kind} @{self.where}>'


class Event:
    __slots__ = ('kind', 'pc', 'subject', 'weight', 'where', 'index')

    def __init__(self, kind, pc, subject, weight=None, where='', index=None):
        self.kind, self.pc, self.subject, self.weight, self.where = kind, pc, subject, weight, where
        self.index = index          # for positional reads: the index term


class Ctx:
    """Evaluation context of one generated function."""

    def __init__(self, U: Universe, scope: dict, draw=None):
        self.U = U
        self.scope = scope              # captured func_locals: name -> real python object
        self.env = {}                   # local name -> (value, bound: z3 Bool)
        self.side: list[SideCond] = []
        self.events: list[Event] = []
        self.draw = draw if draw is not None else z3.Int('r')
        self.draws_taken = 0
        self.extra = []                 # definitional constraints (mod lemmas, ...)
        self.inexact = []               # notes about over-approximations taken
        self.fresh = 0
        self.calls = []                 # (pc, callee name, args, kwargs) of opaque concrete calls

    def new_int(self, base):
        self.fresh += 1
        return z3.Int(f'{base}{self.fresh}')

    def bind(self, name, value, pc):
        old = self.env.get(name)
        if old is None or z3.is_true(pc):
            self.env[name] = (value, pc)
            return
        ov, ob = old
        merged = merge_values(pc, value, ov)
        if merged is None:
            # different kinds: keep the newer one, remember it is only valid under pc
            self.env[name] = (value, pc)
        else:
            self.env[name] = (merged, z3.Or(ob, pc))


def merge_values(c, a, b):
    """If(c, a, b) on values of the same kind; None if kinds differ."""
    if isinstance(a, VObj) and isinstance(b, VObj):
        return VObj(z3.If(c, a.t, b.t))
    if isinstance(a, VInt) and isinstance(b, VInt):
        return VInt(z3.If(c, a.i, b.i))
    if isinstance(a, VBool) and isinstance(b, VBool):
        return VBool(z3.If(c, a.b, b.b))
    if isinstance(a, VConc) and isinstance(b, VConc) and a.v is b.v:
        return a
    return None


def AND(*xs):
    xs = [x for x in xs if not z3.is_true(x)]
    if not xs:
        return z3.BoolVal(True)
    if len(xs) == 1:
        return xs[0]
    return z3.And(xs)


class Evaluator:
    def __init__(self, ctx: Ctx):
        self.c = ctx
        self.U = ctx.U

    # ---- helpers
    def where(self, node):
        try:
            return ast.unparse(node)[:80]
        except Exception:
            return type(node).__name__

    def side(self, kind, reach, node):
        self.c.side.append(SideCond(kind, reach, self.where(node)))

    def truth(self, v, node=None):
        if isinstance(v, VBool):
            return v.b
        if isinstance(v, VInt):
            return v.i != 0
        if isinstance(v, VObj):
            return self.U.truthy(v.t)
        if isinstance(v, VConc):
            return z3.BoolVal(bool(v.v))
        raise Unsupported(f'truth value of {type(v).__name__} at {self.where(node) if node else "?"}')

    def as_obj(self, v, node):
        if isinstance(v, VObj):
            return v.t
        if isinstance(v, VConc):
            return self.lift_const(v.v, node)
        raise Unsupported(f'expected an object at {self.where(node)}, got {type(v).__name__}')

    def lift_const(self, pv, node):
        """A concrete python value used where a symbolic object is needed."""
        U = self.U
        if pv is None or isinstance(pv, (bool, int, str, bytes, float)):
            self.c.fresh += 1
            t = U.obj(f'k{self.c.fresh}')
            self.c.extra.append(U.eq_const(t, pv))
            if pv is None:
                pass
            elif isinstance(pv, bool):
                self.c.extra.append(U.cls(t) == U.K['bool'])
            elif isinstance(pv, int):
                self.c.extra.append(U.cls(t) == U.K['int'])
            elif isinstance(pv, float):
                self.c.extra.append(U.cls(t) == U.K['float'])
            return t
        return U.const_obj(pv)

    def pymod(self, a, m, pc, node):
        self.side('zerodiv', AND(pc, m == 0), node)
        return self.U.pymod(a, m)

    # ---- expressions
    def eval(self, node, pc) -> V:
        m = getattr(self, 'e_' + type(node).__name__, None)
        if m is None:
            raise Unsupported(f'expression {type(node).__name__}: {self.where(node)}')
        return m(node, pc)

    def e_Constant(self, node, pc):
        return VConc(node.value)

    def e_Name(self, node, pc):
        n = node.id
        c = self.c
        if n in c.env:
            v, bound = c.env[n]
            if not z3.is_true(bound):
                self.side('unbound', AND(pc, z3.Not(bound)), node)
            return v
        if n in c.scope:
            return VConc(c.scope[n])
        if hasattr(builtins, n):
            return VConc(getattr(builtins, n))
        self.side('unbound', pc, node)
        raise Unsupported(f'unknown name {n}')

    def e_NamedExpr(self, node, pc):
        v = self.eval(node.value, pc)
        self.c.bind(node.target.id, v, pc)
        return v

    def e_BoolOp(self, node, pc):
        """`and` / `or` with Python's value semantics: the result is one of the operands.
        When every operand is a machine boolean the result is one too (the common case)."""
        is_and = isinstance(node.op, ast.And)
        vals, truths = [], []
        cur = pc
        for sub in node.values:
            v = self.eval(sub, cur)
            t = self.truth(v, sub)
            vals.append(v)
            truths.append(t)
            cur = AND(cur, t if is_and else z3.Not(t))
        if all(isinstance(v, (VBool, VInt)) or (isinstance(v, VConc) and isinstance(v.v, (bool, int, type(None))))
               for v in vals):
            return VBool(z3.And(truths) if is_and else z3.Or(truths))
        # object-valued: A and B  ==  B if truthy(A) else A   (right fold)
        objs = [self.lift_obj(v, sub) for v, sub in zip(vals, node.values)]
        res = objs[-1]
        for o, t in zip(reversed(objs[:-1]), reversed(truths[:-1])):
            res = z3.If(t, res, o) if is_and else z3.If(t, o, res)
        self.U.register(res)
        return VObj(res)

    def lift_obj(self, v, node):
        """Any value as an object term (machine booleans / ints become bool / int objects)."""
        U = self.U
        if isinstance(v, VObj):
            return v.t
        if isinstance(v, (VBool, VInt)):
            self.c.fresh += 1
            t = U.obj(f'lift{self.c.fresh}')
            if isinstance(v, VBool):
                U.lemmas.append(z3.And(U.cls(t) == U.K['bool'], U.ival(t) == z3.If(v.b, 1, 0)))
            else:
                U.lemmas.append(z3.And(U.cls(t) == U.K['int'], U.ival(t) == v.i))
            return t
        return self.as_obj(v, node)

    def e_UnaryOp(self, node, pc):
        v = self.eval(node.operand, pc)
        if isinstance(node.op, ast.Not):
            return VBool(z3.Not(self.truth(v, node.operand)))
        if isinstance(node.op, ast.USub) and isinstance(v, VInt):
            return VInt(-v.i)
        if isinstance(node.op, ast.USub) and isinstance(v, VConc) and isinstance(v.v, int):
            return VConc(-v.v)
        raise Unsupported(f'unary {type(node.op).__name__}')

    def e_IfExp(self, node, pc):
        t = z3.simplify(self.truth(self.eval(node.test, pc), node.test))
        if z3.is_true(t):
            return self.eval(node.body, pc)
        if z3.is_false(t):
            return self.eval(node.orelse, pc)
        a = self.eval(node.body, AND(pc, t))
        b = self.eval(node.orelse, AND(pc, z3.Not(t)))
        if isinstance(a, VConc) and not isinstance(b, VConc):
            a = VObj(self.as_obj(a, node.body))
        if isinstance(b, VConc) and not isinstance(a, VConc):
            b = VObj(self.as_obj(b, node.orelse))
        if isinstance(a, VConc) and isinstance(b, VConc) and a.v is not b.v:
            a = VObj(self.as_obj(a, node.body))
            b = VObj(self.as_obj(b, node.orelse))
        mv = merge_values(t, a, b)
        if mv is None:
            raise Unsupported(f'if-expression with mixed kinds: {self.where(node)}')
        return mv

    def to_int(self, v, node):
        if isinstance(v, VInt):
            return v.i
        if isinstance(v, VConc) and isinstance(v.v, int):
            return z3.IntVal(int(v.v))
        if isinstance(v, VBool):
            return z3.If(v.b, 1, 0)
        raise Unsupported(f'expected int at {self.where(node)}, got {type(v).__name__}')

    def e_BinOp(self, node, pc):
        l = self.eval(node.left, pc)
        r = self.eval(node.right, pc)
        if isinstance(l, VNameSet) or isinstance(r, VNameSet):
            raise Unsupported('set arithmetic outside the kwargs idiom')
        if isinstance(node.op, ast.Sub) and isinstance(l, VBoundKeys):
            if isinstance(r, VConc) and isinstance(r.v, (set, frozenset)):
                return VNameSet([(n, c) for n, c in l.names if n not in r.v])
            raise Unsupported('kwargs.keys() - <non-set>')
        a, b = self.to_int(l, node.left), self.to_int(r, node.right)
        if isinstance(node.op, ast.Mod):
            return VInt(self.pymod(a, b, pc, node))
        if isinstance(node.op, ast.Add):
            return VInt(a + b)
        if isinstance(node.op, ast.Sub):
            return VInt(a - b)
        if isinstance(node.op, ast.Mult) and (z3.is_int_value(a) or z3.is_int_value(b)):
            return VInt(a * b)
        if isinstance(node.op, ast.BitAnd) and z3.is_int_value(b):
            k = b.as_long()
            if k >= 0 and (k + 1) & k == 0:
                self.c.inexact.append(('bitand-as-mod', k))
                return VInt(self.pymod(a, z3.IntVal(k + 1), pc, node))
        if isinstance(node.op, ast.FloorDiv) and z3.is_int_value(b) and b.as_long() > 0:
            return VInt(a / b)
        if isinstance(node.op, ast.RShift) and z3.is_int_value(b) and b.as_long() >= 0:
            return VInt(a / (2 ** b.as_long()))
        raise Unsupported(f'binary op {type(node.op).__name__}: {self.where(node)}')

    def e_Compare(self, node, pc):
        left = self.eval(node.left, pc)
        res = []
        cur = pc
        for op, rn in zip(node.ops, node.comparators):
            right = self.eval(rn, cur)
            b = self.compare(op, left, right, node)
            res.append(b)
            cur = AND(cur, b)
            left = right
        return VBool(z3.And(res) if len(res) > 1 else res[0])

    def compare(self, op, l, r, node):
        U = self.U
        if isinstance(op, (ast.Is, ast.IsNot)):
            b = self.identical(l, r, node)
            return z3.Not(b) if isinstance(op, ast.IsNot) else b
        if isinstance(op, (ast.Eq, ast.NotEq)):
            b = self.equal(l, r, node)
            return z3.Not(b) if isinstance(op, ast.NotEq) else b
        if isinstance(op, (ast.Lt, ast.LtE, ast.Gt, ast.GtE)):
            a, b = self.to_int(l, node), self.to_int(r, node)
            return {ast.Lt: a < b, ast.LtE: a <= b, ast.Gt: a > b, ast.GtE: a >= b}[type(op)]
        if isinstance(op, (ast.In, ast.NotIn)):
            if isinstance(r, VConc) and isinstance(r.v, (tuple, frozenset, set, list)) and isinstance(l, VObj):
                alts = [U.eq_const(l.t, v) for v in r.v]
                b = z3.Or(alts) if alts else z3.BoolVal(False)
                return z3.Not(b) if isinstance(op, ast.NotIn) else b
            if isinstance(l, VObj) and isinstance(r, VObj):
                # `y in x` on a symbolic container: linear scan; recorded as a full read
                self.c.events.append(Event('scan', z3.BoolVal(True), r.t, U.len(r.t), self.where(node)))
                raise Unsupported('`in` on a symbolic container')
        raise Unsupported(f'comparison {type(op).__name__}: {self.where(node)}')

    def identical(self, l, r, node):
        U = self.U
        if isinstance(l, VObj) and isinstance(r, VObj):
            return l.t == r.t
        if isinstance(l, VConc) and isinstance(r, VConc):
            return z3.BoolVal(l.v is r.v)
        if isinstance(l, VConc):
            l, r = r, l
        if isinstance(l, VObj) and isinstance(r, VConc):
            if r.v is None:
                return U.cls(l.t) == U.K['NoneType']
            if r.v is True or r.v is False:
                return z3.And(U.cls(l.t) == U.K['bool'], U.ival(l.t) == int(r.v))
            return l.t == U.const_obj(r.v)
        if isinstance(l, VInt) or isinstance(r, VInt) or isinstance(l, VBool) or isinstance(r, VBool):
            raise Unsupported('identity on machine values')
        raise Unsupported(f'identity between {type(l).__name__} and {type(r).__name__}')

    def equal(self, l, r, node):
        U = self.U
        if isinstance(l, VConc) and not isinstance(r, VConc):
            l, r = r, l
        if isinstance(l, VObj) and isinstance(r, VConc):
            return U.eq_const(l.t, r.v)
        if isinstance(l, (VInt, VBool)) or isinstance(r, (VInt, VBool)):
            if isinstance(l, VBool) and isinstance(r, VBool):
                return l.b == r.b
            return self.to_int(l, node) == self.to_int(r, node)
        if isinstance(l, VConc) and isinstance(r, VConc):
            return z3.BoolVal(l.v == r.v)
        raise Unsupported(f'== between {type(l).__name__} and {type(r).__name__}')

    def e_Attribute(self, node, pc):
        recv = self.eval(node.value, pc)
        return VBoundMethod(recv, node.attr)

    def e_Tuple(self, node, pc):
        vals = [self.eval(e, pc) for e in node.elts]
        if all(isinstance(v, VConc) for v in vals):
            return VConc(tuple(v.v for v in vals))
        raise Unsupported('tuple display of symbolic values')

    # ---- subscripts
    def materialise(self, a, pc, node):
        """list(x) / tuple(x) / [*x] / [*x.values()]: linear in len(x) -- recorded, and the copy stays usable."""
        U, c = self.U, self.c
        t = a.t if isinstance(a, VObj) else a.src
        view = 'self' if isinstance(a, VObj) else a.view
        if view == 'items':
            raise Unsupported('materialised items() view')
        if isinstance(a, VObj):
            self.side('notiterable', AND(pc, z3.Not(U.iterable_items(t))), node)
        c.events.append(Event('scan', pc, t, U.len(t), self.where(node)))
        c.events.append(Event('consume', AND(pc, U.one_shot(t)), t, None, self.where(node)))
        return VCopy(t, view)

    def e_List(self, node, pc):
        if len(node.elts) == 1 and isinstance(node.elts[0], ast.Starred):
            a = self.eval(node.elts[0].value, pc)
            if isinstance(a, (VObj, VIter)):
                return self.materialise(a, pc, node)
        raise Unsupported(f'expression List: {self.where(node)}')

    def e_Subscript(self, node, pc):
        base = self.eval(node.value, pc)
        if isinstance(node.slice, ast.Slice):
            if isinstance(base, VArgs):
                lo = node.slice.lower
                if node.slice.upper is not None or node.slice.step is not None or lo is None:
                    raise Unsupported('args slice other than args[k:]')
                k = self.eval(lo, pc)
                if not (isinstance(k, VConc) and isinstance(k.v, int) and k.v >= 0):
                    raise Unsupported('args[k:] with non-constant k')
                return VArgs(base.n, base.terms, base.start + k.v)
            raise Unsupported('slice of a symbolic object')
        key = self.eval(node.slice, pc)
        return self.getitem(base, key, pc, node)

    def getitem(self, base, key, pc, node):
        U, c = self.U, self.c
        if isinstance(base, VCopy):
            x = base.src
            i = self.to_int(key, node)
            n = U.len(x)
            self.side('index', AND(pc, z3.Not(z3.And(i < n, i >= -n))), node)
            idx = z3.If(i >= 0, i, i + n)
            it = U.item_of(x, idx)
            return VObj(U.val_of(x, it) if base.view == 'values' else it)
        if isinstance(base, VArgs):
            if isinstance(key, VConc) and isinstance(key.v, int):
                k = key.v + base.start if key.v >= 0 else None
                if k is None or k >= len(base.terms):
                    self.side('index', pc, node)
                    raise Unsupported(f'args[{key.v}] beyond the modelled arity')
                self.side('index', AND(pc, z3.Not(k < base.n)), node)
                return VObj(base.terms[k])
            raise Unsupported('args[<symbolic>]')
        if isinstance(base, VKwargs):
            if isinstance(key, VConc) and isinstance(key.v, str):
                if key.v not in base.kw:
                    self.side('key', pc, node)
                    raise Unsupported(f'kwargs[{key.v!r}] outside the name alphabet')
                self.side('key', AND(pc, z3.Not(base.has[key.v])), node)
                return VObj(base.kw[key.v])
            raise Unsupported('kwargs[<symbolic>]')
        if not isinstance(base, VObj):
            raise Unsupported(f'subscript of {type(base).__name__}')
        x = base.t
        if isinstance(key, VObj):
            # mapping lookup
            self.side('notmapping', AND(pc, z3.Not(U.is_mapping(x))), node)
            present = U.haskey(x, key.t)
            dd = U.cls(x) == U.K['defaultdict']
            self.side('key', AND(pc, U.is_mapping(x), z3.Not(present), z3.Not(dd)), node)
            c.events.append(Event('insert', AND(pc, dd, z3.Not(present)), x, None, self.where(node)))
            c.events.append(Event('read', pc, x, z3.IntVal(1), self.where(node)))
            return VObj(U.val_of(x, key.t))
        i = self.to_int(key, node)
        self.side('notindexable', AND(pc, z3.Not(U.int_indexable(x))), node)
        n = U.len(x)
        self.side('index', AND(pc, U.int_indexable(x), z3.Or(i >= n, i < -n)), node)
        c.events.append(Event('read', pc, x, z3.IntVal(1), self.where(node), index=i))
        if z3.is_int_value(i) and i.as_long() >= 0:
            return VObj(U.item_of(x, i.as_long()))
        if z3.is_int_value(i):
            return VObj(U.item_of(x, n + i))
        norm = z3.If(i < 0, n + i, i)
        return VObj(U.item_of(x, z3.simplify(norm) if False else norm))

    # ---- calls
    def e_Call(self, node, pc):
        f = self.eval(node.func, pc)
        args = [self.eval(a, pc) for a in node.args]
        kwargs = {k.arg: self.eval(k.value, pc) for k in node.keywords}
        return self.call(f, args, kwargs, pc, node)

    def call(self, f, args, kwargs, pc, node):
        U, c = self.U, self.c
        if isinstance(f, VBoundMethod):
            return self.call_method(f, args, kwargs, pc, node)
        if not isinstance(f, VConc):
            raise Unsupported(f'call of {type(f).__name__}')
        fn = f.v
        if fn is isinstance or fn is issubclass:
            if len(args) != 2 or kwargs:
                raise Unsupported('isinstance arity')
            o, C = args
            if not isinstance(C, VConc):
                raise Unsupported('isinstance against a symbolic class')
            if fn is isinstance:
                if isinstance(o, VObj):
                    from . import symproxy
                    ks = C.v if isinstance(C.v, tuple) else (C.v,)
                    if any(symproxy.is_deep(k) for k in ks):
                        # a forward-reference proxy whose answer depends on the object's contents:
                        # its real __instancecheck__ is executed symbolically
                        alts = [symproxy.instancecheck_formula(self.c, k, o.t, pc) if symproxy.is_deep(k)
                                else U.isinstance(o.t, k) for k in ks]
                        return VBool(z3.Or(alts))
                    try:
                        return VBool(U.isinstance(o.t, C.v))
                    except IsinstanceRaises as e:
                        # the real isinstance raises: so does the generated code whenever it gets here
                        self.side('isinstance_raises', pc, node)
                        self.c.inexact.append(('isinstance-raises', str(e)[:200]))
                        return VBool(z3.BoolVal(False))
                if isinstance(o, VConc):
                    return VBool(z3.BoolVal(isinstance(o.v, C.v)))
                raise Unsupported(f'isinstance of {type(o).__name__}')
            if isinstance(o, VObj):
                self.side('typeerror', AND(pc, z3.Not(U.is_class_obj(o.t))), node)
                return VBool(U.issubclass(o.t, C.v))
            if isinstance(o, VConc):
                return VBool(z3.BoolVal(issubclass(o.v, C.v)))
            raise Unsupported('issubclass operand')
        if fn is len:
            (o,) = args
            if isinstance(o, VArgs):
                return VInt(o.n - o.start if o.start else o.n)
            if isinstance(o, VObj):
                self.side('notsized', AND(pc, z3.Not(U.sized(o.t))), node)
                return VInt(U.len(o.t))
            raise Unsupported(f'len of {type(o).__name__}')
        if fn is iter:
            (o,) = args
            if isinstance(o, VIter):
                return VIter(o.src, o.view, True)
            if isinstance(o, VObj):
                self.side('notiterable', AND(pc, z3.Not(U.iterable_items(o.t))), node)
                return VIter(o.t, 'self', True)
            raise Unsupported('iter operand')
        if fn is next:
            o = args[0]
            if isinstance(o, VIter) and o.is_iter and len(args) == 1:
                x = o.src
                self.side('stopiter', AND(pc, U.len(x) == 0), node)
                c.events.append(Event('read', pc, x, z3.IntVal(1), self.where(node), index=z3.IntVal(0)))
                c.events.append(Event('consume', AND(pc, U.one_shot(x)), x, None, self.where(node)))
                first = U.item_of(x, 0)
                if o.view in ('self', 'keys'):
                    return VObj(first)
                if o.view == 'values':
                    return VObj(U.val_of(x, first))
                raise Unsupported('next(iter(x.items()))')
            if isinstance(o, VObj):
                # next() directly on the pith: consumes an iterator
                c.events.append(Event('consume', pc, o.t, None, self.where(node)))
                self.side('typeerror', AND(pc, z3.Not(U.one_shot(o.t))), node)
                return VObj(U.item_of(o.t, 0))
            raise Unsupported('next operand')
        if fn is getattr:
            if len(args) == 3 and isinstance(args[0], VObj) and isinstance(args[1], VConc):
                o, nm, dflt = args
                ai = U.attr_index(nm.v)
                d = self.as_obj(dflt, node)
                return VObj(z3.If(U.hasattr(o.t, ai), U.attr_of(o.t, nm.v), d))
            raise Unsupported('getattr form')
        if fn is callable:
            (o,) = args
            if isinstance(o, VObj):
                return VBool(U.isinstance(o.t, __import__('collections.abc').abc.Callable))
        if fn is bool:
            (o,) = args
            return VBool(self.truth(o, node))
        if fn is type and len(args) == 1:
            raise Unsupported('type(x)')
        name = getattr(fn, '__name__', '')
        if fn in (list, tuple) and len(args) == 1 and not kwargs and isinstance(args[0], (VObj, VIter)):
            return self.materialise(args[0], pc, node)
        if fn in (all, any, sum, sorted, list, tuple, set, frozenset, dict, min, max, enumerate,
                  reversed, zip, map, filter):
            for a in args:
                t = a.t if isinstance(a, VObj) else (a.src if isinstance(a, VIter) else None)
                if t is not None:
                    c.events.append(Event('scan', pc, t, U.len(t), self.where(node)))
                    c.events.append(Event('consume', AND(pc, U.one_shot(t)), t, None, self.where(node)))
            raise Unsupported(f'linear builtin {name}() applied to a pith')
        # the draw
        if c.scope.get('__beartype_getrandbits') is fn or name == 'getrandbits':
            c.draws_taken += 1
            if c.draws_taken > 1:
                c.inexact.append(('second-draw', c.draws_taken))
                d2 = c.new_int('r_extra')
                c.extra.append(z3.And(d2 >= 0, d2 < 2 ** 32))
                return VInt(d2)
            return VInt(c.draw)
        # Is[f] validators and other opaque user callables on one symbolic object
        if callable(fn) and len(args) == 1 and not kwargs and isinstance(args[0], VObj):
            c.calls.append((pc, fn, args, kwargs))
            return VBool(U.pred(resolve_user_callable(fn))(args[0].t))
        raise Unsupported(f'call of {name or fn!r}: {self.where(node)}')

    def call_method(self, f, args, kwargs, pc, node):
        U, c = self.U, self.c
        recv, name = f.recv, f.name
        if isinstance(recv, VKwargs):
            if name == 'get' and len(args) == 2 and isinstance(args[0], VConc):
                nm = args[0].v
                d = self.as_obj(args[1], node)
                if nm not in recv.kw:
                    raise Unsupported(f'kwargs.get({nm!r}) outside the name alphabet')
                return VObj(z3.If(recv.has[nm], recv.kw[nm], d))
            if name == 'keys' and not args:
                return VBoundKeys([(n, recv.has[n]) for n in recv.kw])
            raise Unsupported(f'kwargs.{name}')
        if isinstance(recv, VObj):
            x = recv.t
            if name in ('values', 'keys', 'items') and not args:
                self.side('attrerror', AND(pc, z3.Not(U.is_mapping(x))), node)
                return VIter(x, name, False)
            if name in MUTATING_METHODS:
                c.events.append(Event('mutate', pc, x, None, self.where(node)))
                raise Unsupported(f'mutating method .{name}() on a pith')
            if name == 'get' and len(args) >= 1:
                raise Unsupported('pith.get()')
        raise Unsupported(f'method .{name} on {type(recv).__name__}')


def resolve_user_callable(fn, depth=2):
    """beartype wraps the callable given to Is[...] in a bool()-coercing closure; find the
    harness predicate function inside (marked with ``_pred``)."""
    if getattr(fn, '_pred', None) is not None or depth == 0:
        return fn
    for cell in getattr(fn, '__closure__', None) or ():
        try:
            v = cell.cell_contents
        except ValueError:
            continue
        if callable(v):
            r = resolve_user_callable(v, depth - 1)
            if getattr(r, '_pred', None) is not None:
                return r
    return fn


class VBoundKeys(V):
    __slots__ = ('names',)

    def __init__(self, names):
        self.names = names


# --------------------------------------------------------------------------- function-level API

def parse_func(code: str):
    tree = ast.parse(textwrap.dedent(code))
    fn = tree.body[0]
    if not isinstance(fn, (ast.FunctionDef, ast.AsyncFunctionDef)):
        raise Unsupported('generated code is not a single function definition')
    return fn


class ExprResult:
    def __init__(self, ret, ctx):
        self.ret = ret              # z3 Bool: the tester's return value
        self.ctx = ctx
        self.side = ctx.side
        self.events = ctx.events
        self.extra = ctx.extra

    def cost(self):
        """Total number of container items read, as a z3 Int term."""
        terms = [z3.If(e.pc, e.weight, 0) for e in self.events if e.kind in ('read', 'scan')]
        return z3.Sum(terms) if terms else z3.IntVal(0)

    def effects(self):
        return [e for e in self.events if e.kind in ('consume', 'insert', 'mutate')]


def translate_tester(record, U: Universe, x, draw=None):
    """Translate a generated tester (``def checker(pith, ...): [r = getrandbits(32)]; return <expr>``)
    into a z3 Bool over object term ``x`` and draw ``draw``."""
    fn = parse_func(record.code)
    ctx = Ctx(U, record.scope, draw)
    ev = Evaluator(ctx)
    params = [a.arg for a in fn.args.args]
    ctx.env[params[0]] = (VObj(x), z3.BoolVal(True))
    pc = z3.BoolVal(True)
    ret = None
    for st in fn.body:
        if isinstance(st, ast.Assign) and len(st.targets) == 1 and isinstance(st.targets[0], ast.Name):
            ctx.bind(st.targets[0].id, ev.eval(st.value, pc), pc)
        elif isinstance(st, ast.Return):
            v = ev.eval(st.value, pc)
            ret = ev.truth(v, st.value)
            break
        elif isinstance(st, ast.Expr) and isinstance(st.value, ast.Constant):
            continue
        else:
            raise Unsupported(f'tester statement {type(st).__name__}')
    if ret is None:
        raise Unsupported('tester without return')
    return ExprResult(ret, ctx)
