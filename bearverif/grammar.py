"""Deterministic generators of hints, validator expressions and configurations (DESIGN §3).

Everything here is *enumeration of programs/configurations*; the deciding step over
objects and draws is the solver's (DESIGN §1.4).  All generators are deterministic
functions of (tier, VERIF_SEED) so that 16 shards regenerate the same list.
"""
from __future__ import annotations
import collections
import collections.abc as cabc
import itertools
import random
import typing
from typing import (Any, Annotated, Callable, Counter, DefaultDict, Deque, Dict, FrozenSet,
                    Generator, Iterator, List, Literal, Mapping, MutableMapping, MutableSequence,
                    MutableSet, NewType, Optional, OrderedDict, Sequence, Set, Tuple, Type, TypeVar,
                    Union, AbstractSet, ChainMap, Collection, Container, ItemsView, Iterable,
                    KeysView, Reversible, ValuesView)

from . import userclasses as uc

TB = TypeVar('TB', bound=int)
TC = TypeVar('TC', str, bytes)
TU = TypeVar('TU')
NTInt = NewType('NTInt', int)
NTUA = NewType('NTUA', uc.UA)
NoneType = type(None)

# --------------------------------------------------------------------------- validators

VTREES: dict = {}          # id(validator) -> construction tree
_KEEP: list = []           # keeps validators alive so ids stay unique


class TablePred:
    """User predicate for Is[...]: truth per object identity is set by the replay from the
    solver model; default verdict otherwise.  Counts its calls."""

    def __init__(self, name, default=False):
        self.name, self.default = name, default
        self.table = {}
        self.calls = 0
        self.__name__ = name
        self._pred = self          # marker looked for by sym.resolve_user_callable

    @staticmethod
    def key(obj):
        if obj is None or type(obj) in (int, bool, str, bytes, float):
            return (type(obj).__name__, repr(obj))
        return id(obj)

    def __call__(self, obj):
        self.calls += 1
        return self.table.get(self.key(obj), self.default)

    def __repr__(self):
        return f'<pred {self.name}>'


P1 = TablePred('P1')
P2 = TablePred('P2')
PREDS = {'P1': P1, 'P2': P2}


def make_validator(tree):
    """Construction tree -> real beartype.vale validator (built through the public API)."""
    from beartype.vale import Is, IsAttr, IsEqual, IsInstance, IsSubclass
    op = tree[0]
    if op == 'and':
        v = make_validator(tree[1]) & make_validator(tree[2])
    elif op == 'or':
        v = make_validator(tree[1]) | make_validator(tree[2])
    elif op == 'not':
        v = ~make_validator(tree[1])
    elif op == 'is':
        f = tree[1]
        v = Is[_as_func(f)]
    elif op == 'eq':
        v = IsEqual[tree[1]]
    elif op == 'inst':
        v = IsInstance[tree[1]]
    elif op == 'sub':
        v = IsSubclass[tree[1]]
    elif op == 'attr':
        v = IsAttr[tree[1], make_validator(tree[2])]
    else:
        raise ValueError(op)
    VTREES[id(v)] = norm_tree(tree)
    _KEEP.append(v)
    return v


_FUNCS: dict = {}


def _as_func(pred):
    """Is[...] wants a plain function of one argument; wrap the TablePred once."""
    f = _FUNCS.get(id(pred))
    if f is None:
        def f(obj):
            return pred(obj)
        f.__name__ = pred.name
        f._pred = pred
        _FUNCS[id(pred)] = f
    return f


def norm_tree(tree):
    """Tree with Is-leaves replaced by the function object actually handed to beartype
    (so that Universe.pred keys coincide between refsem and the translated code)."""
    op = tree[0]
    if op in ('and', 'or'):
        return (op, norm_tree(tree[1]), norm_tree(tree[2]))
    if op == 'not':
        return (op, norm_tree(tree[1]))
    if op == 'is':
        return (op, _as_func(tree[1]))
    if op == 'attr':
        return (op, tree[1], norm_tree(tree[2]))
    return tree


def tree_str(t):
    op = t[0]
    if op == 'and':
        return f'({tree_str(t[1])} & {tree_str(t[2])})'
    if op == 'or':
        return f'({tree_str(t[1])} | {tree_str(t[2])})'
    if op == 'not':
        return f'~{tree_str(t[1])}'
    if op == 'is':
        return f'Is[{getattr(t[1], "__name__", t[1])}]'
    if op == 'eq':
        return f'IsEqual[{t[1]!r}]'
    if op == 'inst':
        return f'IsInstance[{getattr(t[1], "__name__", t[1])}]'
    if op == 'sub':
        return f'IsSubclass[{getattr(t[1], "__name__", t[1])}]'
    if op == 'attr':
        return f'IsAttr[{t[1]!r}, {tree_str(t[2])}]'
    return str(t)


V_ATOMS = [
    ('is', P1), ('is', P2),
    ('eq', 1), ('eq', 'a'), ('eq', None),
    ('inst', int), ('inst', uc.UA),
    ('sub', int), ('sub', uc.UA),
    # singletons that *equal* other objects (0 == False, 1 == True, 1.0 == True): equality is not identity.
    # (IsEqual[...] is memoised by equality of its argument, so IsEqual[1] above *is* IsEqual[True]; False has
    # no equal sibling among the atoms and is therefore built as written)
    ('eq', False), ('eq', True),
]


def v_atoms_with_attr(depth=2):
    out = list(V_ATOMS)
    inner = [('eq', 1), ('inst', int), ('is', P1)]
    for a in inner:
        out.append(('attr', 'n', a))
    if depth >= 2:
        out.append(('attr', 'n', ('attr', 'm', ('eq', 1))))
        out.append(('attr', 'm', ('attr', 'n', ('inst', int))))
        # the same attribute name at two nesting levels, with a sibling that still reads the outer value
        out.append(('attr', 'n', ('and', ('attr', 'n', ('is', P1)), ('is', P2))))
        out.append(('attr', 'n', ('or', ('inst', uc.UA), ('attr', 'n', ('eq', 1)))))
        out.append(('attr', 'n', ('and', ('attr', 'n', ('attr', 'n', ('inst', int))), ('inst', uc.UH))))
    return out


def validator_trees(depth, atoms=None):
    """All expressions over atoms with & | ~ up to the given operator depth."""
    atoms = atoms if atoms is not None else v_atoms_with_attr()
    level = list(atoms)
    allv = list(level)
    for _ in range(depth):
        new = []
        for a in level:
            new.append(('not', a))
        for a, b in itertools.product(level, atoms):
            new.append(('and', a, b))
            new.append(('or', a, b))
        level = new
        allv.extend(new)
    return allv


def seeded_validator_tree(rng, depth, atoms=None):
    atoms = atoms if atoms is not None else v_atoms_with_attr()
    if depth <= 0 or rng.random() < 0.2:
        return rng.choice(atoms)
    k = rng.random()
    if k < 0.25:
        return ('not', seeded_validator_tree(rng, depth - 1, atoms))
    if k < 0.35:
        inner = seeded_validator_tree(rng, depth - 1, [a for a in atoms if a[0] != 'attr'] or atoms)
        return ('attr', rng.choice(['n', 'm']), inner)
    op = 'and' if k < 0.7 else 'or'
    return (op, seeded_validator_tree(rng, depth - 1, atoms), seeded_validator_tree(rng, depth - 1, atoms))


# --------------------------------------------------------------------------- hints

LEAVES = [
    ('int', int), ('str', str), ('bool', bool), ('float', float), ('complex', complex),
    ('bytes', bytes), ('None', None), ('object', object), ('Any', Any),
    ('UA', uc.UA), ('UB', uc.UB), ('UProto', uc.UProto), ('ENum', uc.ENum),
    ('Lit1', Literal[1]), ('LitTrue', Literal[True]), ('Lit_a_None', Literal['a', None]),
    ('Lit_0_a_ba', Literal[0, 'a', b'a']), ('LitEnum', Literal[uc.EColor.R]),
    ('LitTrue1', Literal[True, 1]), ('Lit0False', Literal[0, False]), ('LitENum1', Literal[uc.ENum.ONE, 1]),
    ('type', type), ('Type[int]', Type[int]), ('Type[UA]', Type[uc.UA]),
    ('type[int|str]', Type[Union[int, str]]),
    ('TB', TB), ('TC', TC), ('TU', TU), ('NTInt', NTInt), ('NTUA', NTUA),
    ('Iterator[int]', Iterator[int]), ('Generator', Generator[int, None, None]),
    ('tuple', tuple), ('list', list), ('Callable', Callable[[int], str]),
    ('UGenPlain[int]', uc.UGenPlain[int]),
]
CORE_LEAVES = [('int', int), ('str', str), ('None', None), ('UA', uc.UA), ('Any', Any),
               ('Lit_a_None', Literal['a', None]), ('float', float)]

UNARY = [
    ('List', lambda t: List[t]), ('list', lambda t: list[t]),
    ('Sequence', lambda t: Sequence[t]), ('abc.Sequence', lambda t: cabc.Sequence[t]),
    ('MutableSequence', lambda t: MutableSequence[t]),
    ('Tuple...', lambda t: Tuple[t, ...]), ('tuple...', lambda t: tuple[t, ...]),
    ('Set', lambda t: Set[t]), ('set', lambda t: set[t]), ('FrozenSet', lambda t: FrozenSet[t]),
    ('AbstractSet', lambda t: AbstractSet[t]), ('MutableSet', lambda t: MutableSet[t]),
    ('Collection', lambda t: Collection[t]), ('Deque', lambda t: Deque[t]),
    ('KeysView', lambda t: KeysView[t]), ('ValuesView', lambda t: ValuesView[t]),
    ('Iterable', lambda t: Iterable[t]), ('Container', lambda t: Container[t]),
    ('Reversible', lambda t: Reversible[t]), ('Optional', lambda t: Optional[t]),
    ('UGenList', lambda t: uc.UGenList[t]), ('Counter', lambda t: Counter[t]),
    ('Tuple1', lambda t: Tuple[t]), ('Type', None),
]
UNARY = [u for u in UNARY if u[1] is not None]
BINARY = [
    ('Dict', lambda a, b: Dict[a, b]), ('dict', lambda a, b: dict[a, b]),
    ('Mapping', lambda a, b: Mapping[a, b]), ('MutableMapping', lambda a, b: MutableMapping[a, b]),
    ('DefaultDict', lambda a, b: DefaultDict[a, b]), ('OrderedDict', lambda a, b: OrderedDict[a, b]),
    ('ChainMap', lambda a, b: ChainMap[a, b]), ('ItemsView', lambda a, b: ItemsView[a, b]),
    ('Union', lambda a, b: Union[a, b]), ('Tuple2', lambda a, b: Tuple[a, b]),
]
# one representative per container family (used for depth >= 2)
FAMILY_UNARY = [
    ('List', lambda t: List[t]), ('Sequence', lambda t: Sequence[t]), ('Tuple...', lambda t: Tuple[t, ...]),
    ('Set', lambda t: Set[t]), ('Deque', lambda t: Deque[t]), ('ValuesView', lambda t: ValuesView[t]),
    ('Collection', lambda t: Collection[t]), ('Iterable', lambda t: Iterable[t]),
    ('Optional', lambda t: Optional[t]), ('UGenList', lambda t: uc.UGenList[t]), ('Tuple1', lambda t: Tuple[t]),
]
FAMILY_BINARY = [
    ('Dict', lambda a, b: Dict[a, b]), ('Mapping', lambda a, b: Mapping[a, b]),
    ('ItemsView', lambda a, b: ItemsView[a, b]), ('Union', lambda a, b: Union[a, b]),
    ('Tuple2', lambda a, b: Tuple[a, b]),
]


def _hashable_leaf(t):
    """Leaves usable as set items / dict keys in the *hint* are unrestricted; nothing to filter."""
    return True


def _mk(name, f, *args):
    try:
        return (name, f(*[a[1] for a in args]))
    except TypeError:
        return None


def hints_depth1(leaves=LEAVES, core=CORE_LEAVES):
    out = list(leaves)
    out.append(('Tuple[()]', Tuple[()]))
    for un, uf in UNARY:
        for lf in leaves:
            h = _mk(f'{un}[{lf[0]}]', uf, lf)
            if h:
                out.append(h)
    for bn, bf in BINARY:
        for a in core:
            for b in core:
                h = _mk(f'{bn}[{a[0]},{b[0]}]', bf, a, b)
                if h:
                    out.append(h)
    # ternaries
    n = len(core)
    for a, b, c in [(core[0], core[1 % n], core[2 % n]), (core[3 % n], core[0], core[5 % n]), (core[1 % n], core[4 % n], core[6 % n])]:
        out.append((f'Union[{a[0]},{b[0]},{c[0]}]', Union[a[1], b[1], c[1]]))
        out.append((f'Tuple3[{a[0]},{b[0]},{c[0]}]', Tuple[a[1], b[1], c[1]]))
    # PEP 604
    out.append(('int|str', int | str))
    out.append(('list[int]|None', list[int] | None))
    out.append(('(int,str) tuple-union', (int, str)))
    return _dedup(out)


def annotated_hints(depth=1, bases=None, limit=None):
    bases = bases or [('object', object), ('int', int), ('str', str), ('List[int]', List[int]), ('UA', uc.UA),
                      ('UH', uc.UH), ('type', type)]
    trees = validator_trees(depth)
    out = []
    for bi, (bn, b) in enumerate(bases):
        for ti, t in enumerate(trees):
            if limit is not None and (ti + bi) % max(1, len(trees) * len(bases) // limit) != 0:
                continue
            out.append((f'Annotated[{bn}, {tree_str(t)}]', Annotated[b, make_validator(t)]))
    # several validators on one Annotated
    out.append(('Annotated[int, eq1, inst-int]', Annotated[int, make_validator(('eq', 1)), make_validator(('inst', int))]))
    out.append(('Annotated[object, P1, ~P2, attr]', Annotated[object, make_validator(('is', P1)), make_validator(('not', ('is', P2))),
                                                             make_validator(('attr', 'n', ('eq', 1)))]))
    return out


def hints_depth2_curated():
    """Every (parent family x child family) pair once."""
    out = []
    kids = []
    for un, uf in FAMILY_UNARY:
        kids.append(_mk(f'{un}[int]', uf, ('int', int)))
        kids.append(_mk(f'{un}[Lit_a_None]', uf, ('Lit_a_None', Literal['a', None])))
    for bn, bf in FAMILY_BINARY:
        kids.append(_mk(f'{bn}[str,int]', bf, ('str', str), ('int', int)))
        kids.append(_mk(f'{bn}[UA,float]', bf, ('UA', uc.UA), ('float', float)))
    kids.append(('Annotated[int,eq1|P1]', Annotated[int, make_validator(('or', ('eq', 1), ('is', P1)))]))
    kids.append(('Type[UA]', Type[uc.UA]))
    kids.append(('Annotated[object,attr_n_eq1]', Annotated[object, make_validator(('attr', 'n', ('eq', 1)))]))
    kids.append(('Annotated[UH,attr_n_P1]', Annotated[uc.UH, make_validator(('attr', 'n', ('is', P1)))]))
    kids = [k for k in kids if k]
    for un, uf in FAMILY_UNARY:
        for k in kids:
            h = _mk(f'{un}[{k[0]}]', uf, k)
            if h:
                out.append(h)
    for bn, bf in FAMILY_BINARY:
        for i, k in enumerate(kids):
            other = kids[(i * 7 + 3) % len(kids)] if i % 3 == 0 else ('str', str)
            for pair in ((k, other), (other, k)):
                h = _mk(f'{bn}[{pair[0][0]},{pair[1][0]}]', bf, *pair)
                if h:
                    out.append(h)
    return _dedup(out)


def hints_depth2_full():
    d1 = hints_depth1(leaves=CORE_LEAVES + [('Type[UA]', Type[uc.UA]), ('TC', TC)], core=CORE_LEAVES[:4])
    out = []
    for un, uf in UNARY:
        for k in d1:
            h = _mk(f'{un}[{k[0]}]', uf, k)
            if h:
                out.append(h)
    return _dedup(out)


def hints_depth3_reduced():
    base = [('int', int), ('Lit_a_None', Literal['a', None])]
    lvl = list(base)
    for _ in range(2):
        nxt = []
        for un, uf in FAMILY_UNARY:
            for k in lvl:
                h = _mk(f'{un}[{k[0]}]', uf, k)
                if h:
                    nxt.append(h)
        for bn, bf in FAMILY_BINARY:
            for i, k in enumerate(lvl):
                h = _mk(f'{bn}[str,{k[0]}]', bf, ('str', str), k)
                if h:
                    nxt.append(h)
        lvl = nxt
    out = []
    i = 0
    for un, uf in FAMILY_UNARY:
        for k in lvl:
            i += 1
            if i % 3:
                continue
            h = _mk(f'{un}[{k[0]}]', uf, k)
            if h:
                out.append(h)
    return _dedup(out)


def seeded_hints(seed, count, max_depth=5, max_width=4):
    rng = random.Random(seed)
    out = []

    def gen(d):
        if d <= 0 or rng.random() < 0.25:
            return rng.choice(LEAVES)
        k = rng.random()
        if k < 0.45:
            un, uf = rng.choice(UNARY)
            c = gen(d - 1)
            return _mk(f'{un}[{c[0]}]', uf, c) or c
        if k < 0.75:
            bn, bf = rng.choice(BINARY)
            a, b = gen(d - 1), gen(d - 1)
            return _mk(f'{bn}[{a[0]},{b[0]}]', bf, a, b) or a
        if k < 0.9:
            w = rng.randint(2, max_width)
            ms = [gen(d - 1) for _ in range(w)]
            try:
                return ('Union[' + ','.join(m[0] for m in ms) + ']', Union[tuple(m[1] for m in ms)])
            except TypeError:
                return ms[0]
        w = rng.randint(0, 3)
        ms = [gen(d - 1) for _ in range(w)]
        try:
            return ('TupleN[' + ','.join(m[0] for m in ms) + ']', Tuple[tuple(m[1] for m in ms)] if ms else Tuple[()])
        except TypeError:
            return ('int', int)
    for _ in range(count):
        out.append(gen(rng.randint(2, max_depth)))
    return _dedup(out)


def _dedup(hs):
    seen, out = set(), []
    for h in hs:
        if h is None:
            continue
        if h[0] in seen:
            continue
        seen.add(h[0])
        out.append(h)
    return out


TL = TypeVar('TL', bound=List[int])
TCL = TypeVar('TCL', List[int], Tuple[str, ...])
NTList = NewType('NTList', List[int])
# PEP 695 aliases (reduced by beartype to their values; a union-valued alias inside a narrower union
# is re-flattened into the enclosing union)
TBU = TypeVar('TBU', bound=Union[int, str])
NTNT = NewType('NTNT', NTInt)
type AScalar = int | str | bytes
type AListInt = List[int]
type AOpt = AScalar | None
type AGen[T] = List[T] | None
type AWide = int | str | bytes | float | None
type ARec = List[ARec] | int
type ARecD = Dict[str, ARecD] | None


def special_hints():
    """Shapes that a constructor-times-leaf grammar does not reach: overlapping union members,
    unions of same-origin containers, nested literals, TypeVars / NewTypes over containers,
    Annotated around and inside containers, ignorable mapping sides, class-object containers."""
    v_eq1 = make_validator(('eq', 1))
    v_p1 = make_validator(('is', P1))
    v_inst = make_validator(('inst', int))
    out = [
        ('Union[int,bool]', Union[int, bool]), ('Union[bool,int,None]', Union[bool, int, None]),
        ('Union[UA,UB]', Union[uc.UA, uc.UB]), ('Union[List[int],List[str]]', Union[List[int], List[str]]),
        ('Union[List[int],Tuple[int,...]]', Union[List[int], Tuple[int, ...]]),
        ('Union[Dict[str,int],Dict[int,str]]', Union[Dict[str, int], Dict[int, str]]),
        ('Union[Tuple[()],Tuple[int]]', Union[Tuple[()], Tuple[int]]),
        ('Union[Lit1,Lit_a_None,int]', Union[Literal[1], Literal['a', None], int]),
        ('Optional[Union[int,List[Optional[str]]]]', Optional[Union[int, List[Optional[str]]]]),
        ('Literal[Literal[1],2]', Literal[Literal[1], 2]), ('Literal[True,False]', Literal[True, False]),
        ('Literal[b_a,a]', Literal[b'a', 'a']), ('Literal[ENum.ONE,EColor.R]', Literal[uc.ENum.ONE, uc.EColor.R]),
        ('List[LitTrue1]', List[Literal[True, 1]]), ('Dict[Lit1,Lit_a_None]', Dict[Literal[1], Literal['a', None]]),
        ('TL', TL), ('TCL', TCL), ('NTList', NTList), ('List[TB]', List[TB]), ('Dict[TC,TB]', Dict[TC, TB]),
        ('List[NTInt]', List[NTInt]), ('Tuple[TB,TC]', Tuple[TB, TC]),
        ('Annotated[List[int],P1]', Annotated[List[int], v_p1]),
        ('List[Annotated[int,eq1]]', List[Annotated[int, v_eq1]]),
        ('Annotated[Annotated[int,eq1],inst]', Annotated[Annotated[int, v_eq1], v_inst]),
        ('Dict[str,Annotated[int,P1]]', Dict[str, Annotated[int, v_p1]]),
        ('Annotated[Dict[str,int],P1,inst]', Annotated[Dict[str, int], v_p1, make_validator(('inst', dict))]),
        ('Dict[Any,int]', Dict[Any, int]), ('Dict[str,object]', Dict[str, object]), ('Mapping[Any,Any]', Mapping[Any, Any]),
        ('List[object]', List[object]), ('Tuple[Any,...]', Tuple[Any, ...]), ('Tuple[Any,int]', Tuple[Any, int]),
        ('Set[TU]', Set[TU]), ('Iterable[Any]', Iterable[Any]),
        ('type[Any]', Type[Any]), ('Type[object]', Type[object]), ('Type[TB]', Type[TB]), ('List[Type[int]]', List[Type[int]]),
        ('Set[Type[UA]]', Set[Type[uc.UA]]), ('Dict[Type[int],int]', Dict[Type[int], int]),
        ('Tuple[List[int],Dict[str,int]]', Tuple[List[int], Dict[str, int]]),
        ('Tuple[Tuple[int,...],...]', Tuple[Tuple[int, ...], ...]), ('Tuple[Tuple[int,str],...]', Tuple[Tuple[int, str], ...]),
        ('List[Tuple[()]]', List[Tuple[()]]), ('Dict[Tuple[int,str],List[int]]', Dict[Tuple[int, str], List[int]]),
        ('abc.Mapping[str,abc.Sequence[int]]', cabc.Mapping[str, cabc.Sequence[int]]),
        ('abc.Set[int]', cabc.Set[int]), ('abc.MutableMapping[int,int]', cabc.MutableMapping[int, int]),
        ('collections.deque[int]', collections.deque[int]), ('collections.OrderedDict[str,int]', collections.OrderedDict[str, int]),
        ('frozenset[str]', frozenset[str]), ('dict[str,list[int]]', dict[str, list[int]]), ('tuple[int,str]', tuple[int, str]),
        ('type[int]', type[int]), ('list[int]|dict[str,int]', list[int] | dict[str, int]),
        ('UGenList[List[int]]', uc.UGenList[List[int]]), ('List[UGenList[int]]', List[uc.UGenList[int]]),
        ('UGenList2[str]', uc.UGenList2[str]), ('Union[UGenList[int],UGenList2[int]]', Union[uc.UGenList[int], uc.UGenList2[int]]),
        ('Sequence[Sequence[Sequence[int]]]', Sequence[Sequence[Sequence[int]]]),
        ('Dict[str,Dict[str,Dict[str,int]]]', Dict[str, Dict[str, Dict[str, int]]]),
        ('List[Iterator[int]]', List[Iterator[int]]), ('Tuple[Iterable[int],int]', Tuple[Iterable[int], int]),
        ('Union[Iterator[int],str]', Union[Iterator[int], str]), ('Optional[Iterable[Optional[int]]]', Optional[Iterable[Optional[int]]]),
        ('ItemsView[str,List[int]]', ItemsView[str, List[int]]), ('KeysView[Tuple[int,...]]', KeysView[Tuple[int, ...]]),
        ('Counter[Lit_a_None]', Counter[Literal['a', None]]), ('ChainMap[str,Optional[int]]', ChainMap[str, Optional[int]]),
        ('DefaultDict[str,List[int]]', DefaultDict[str, List[int]]),
        ('AScalar', AScalar), ('AScalar|None', AScalar | None), ('List[AScalar|None]', List[AScalar | None]),
        ('Optional[AListInt]', Optional[AListInt]), ('AOpt', AOpt), ('Dict[str,Optional[AScalar]]', Dict[str, Optional[AScalar]]),
        ('AGen[int]', AGen[int]), ('Union[AScalar,float]', Union[AScalar, float]), ('Optional[AWide]', Optional[AWide]),
        ('Union[AWide,UA]', Union[AWide, uc.UA]), ('Tuple[AOpt,...]', Tuple[AOpt, ...]), ('Union[UA,AOpt]', Union[uc.UA, AOpt]),
        ('Union[List[int],AWide]', Union[List[int], AWide]),
        # PEP 646 fixed unpacking, LiteralString, ABC / protocol leaves, two-parameter user generic over dict,
        # type variable bounded by a union, NewType of NewType
        ('tuple[int,*tuple[str,int]]', tuple[int, *tuple[str, int]]),
        ('Tuple[int,Unpack[Tuple[str,int]]]', Tuple[int, typing.Unpack[Tuple[str, int]]]),
        ('List[tuple[*tuple[int,str]]]', List[tuple[*tuple[int, str]]]),
        ('LiteralString', typing.LiteralString), ('List[LiteralString]', List[typing.LiteralString]),
        ('Hashable', typing.Hashable), ('Sized', typing.Sized), ('List[Hashable]', List[typing.Hashable]),
        ('Dict[Hashable,Sized]', Dict[typing.Hashable, typing.Sized]),
        ('Tuple[Sized,...]', Tuple[typing.Sized, ...]), ('Union[Sized,int]', Union[typing.Sized, int]),
        ('UGenDict[str,int]', uc.UGenDict[str, int]), ('UGenDict[int,List[int]]', uc.UGenDict[int, List[int]]),
        ('List[UGenDict[str,int]]', List[uc.UGenDict[str, int]]), ('Union[UGenDict[str,int],Dict[int,str]]', Union[uc.UGenDict[str, int], Dict[int, str]]),
        ('UGenDict[str,UGenList[int]]', uc.UGenDict[str, uc.UGenList[int]]),
        ('TBU', TBU), ('Optional[TBU]', Optional[TBU]), ('List[TBU]', List[TBU]), ('Dict[TBU,TB]', Dict[TBU, TB]),
        # one type variable bound differently at two levels of a hint tree
        ('UTagged[int]', uc.UTagged[int]), ('List[UTagged[int]]', List[uc.UTagged[int]]), ('Optional[UTagged[bytes]]', Optional[uc.UTagged[bytes]]),
        ('UGenDict[str,UGenDict[int,bytes]]', uc.UGenDict[str, uc.UGenDict[int, bytes]]),
        # recursive PEP 695 aliases
        ('ARec', ARec), ('Optional[ARec]', Optional[ARec]), ('ARecD', ARecD), ('List[ARec]', List[ARec]), ('Tuple[ARec,str]', Tuple[ARec, str]),
        ('UIntList', uc.UIntList), ('List[UIntList]', List[uc.UIntList]), ('Optional[UIntList]', Optional[uc.UIntList]),
        ('Dict[str,UIntList]', Dict[str, uc.UIntList]), ('Union[UIntList,str]', Union[uc.UIntList, str]),
        ('NTNT', NTNT), ('List[NTNT]', List[NTNT]), ('Union[NTNT,str]', Union[NTNT, str]),
        # a union whose direct member is also nested inside an earlier member (reduction guards must not leak between siblings)
        ('Union[List[float],float]', Union[List[float], float]), ('Union[Dict[str,complex],complex]', Union[Dict[str, complex], complex]),
        ('Union[List[str],str]', Union[List[str], str]), ('Union[Set[float],None,float]', Union[Set[float], None, float]),
        ('Union[float,Tuple[float,...]]', Union[float, Tuple[float, ...]]), ('Union[List[int],int]', Union[List[int], int]),
    ]
    return out


def hint_set(tier, seed=0):
    if tier == 'quick':
        hs = hints_depth1() + special_hints() + hints_depth2_curated() + annotated_hints(1, limit=120)
    else:
        hs = (hints_depth1() + special_hints() + hints_depth2_curated() + hints_depth2_full() + hints_depth3_reduced()
              + annotated_hints(1) + seeded_hints(seed, 2000))
    return _dedup(hs)


def conf_set(tier):
    """Configurations (as kwargs dicts) under which code is generated."""
    confs = [{}, {'is_random': False}]
    if tier != 'quick':
        confs += [{'is_pep484_tower': True}, {'is_random': False, 'is_pep484_tower': True},
                  {'strategy': 'On'}]
    return confs


class VerifWarning(UserWarning):
    """A configured Warning violation class."""


class VerifError(Exception):
    """A configured Exception violation class."""


VIOLATION_CLASSES = {'VerifWarning': VerifWarning, 'VerifError': VerifError}

# hints that may appear as keys / values of hint_overrides, by name
OVERRIDE_HINTS = {
    'int': int, 'str': str, 'float': float, 'bytes': bytes, 'UA': uc.UA, 'UB': uc.UB, 'None': None,
    'List[int]': List[int], 'List[str]': List[str], 'int|None': Optional[int], 'str|bytes': Union[str, bytes],
    'int|str': Union[int, str], 'Tuple[int,...]': Tuple[int, ...], 'Lit1': Literal[1], 'float|int': Union[float, int],
    'Set[str]': Set[str], 'UA|None': Optional[uc.UA], 'str|float': Union[str, float],
    'int|str|bytes': Union[int, str, bytes], 'UA|int|str|None': Union[uc.UA, int, str, None],
    'complex': complex, 'complex|float|int': Union[complex, float, int],
}


def make_conf(kw):
    """Configuration from a JSON-able kwargs dict (classes / hints / enums given by name)."""
    from beartype import BeartypeConf, BeartypeStrategy, BeartypeHintOverrides, BeartypeViolationVerbosity
    kw = dict(kw)
    if 'strategy' in kw:
        kw['strategy'] = getattr(BeartypeStrategy, kw['strategy'])
    if 'violation_verbosity' in kw:
        kw['violation_verbosity'] = getattr(BeartypeViolationVerbosity, kw['violation_verbosity'])
    for k in ('violation_type', 'violation_door_type', 'violation_param_type', 'violation_return_type',
              'warning_cls_on_decorator_exception'):
        if isinstance(kw.get(k), str):
            kw[k] = VIOLATION_CLASSES[kw[k]]
    if 'hint_overrides' in kw:
        kw['hint_overrides'] = BeartypeHintOverrides(
            {OVERRIDE_HINTS[a]: OVERRIDE_HINTS[b] for a, b in kw['hint_overrides']})
    return BeartypeConf(**kw)
