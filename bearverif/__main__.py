import sys
from .check import main
sys.exit(main())
