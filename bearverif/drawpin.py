"""Control of beartype's sampler draw.  Must be imported before ``beartype``:
``random.getrandbits`` is replaced by a callable whose return value the harness sets."""
import random
import sys

_orig = random.getrandbits


class DrawPin:
    def __init__(self):
        self.value = None
        self.calls = 0

    def __call__(self, n):
        self.calls += 1
        if self.value is None:
            return _orig(n)
        return self.value & ((1 << n) - 1)

    def __repr__(self):
        return f'<DrawPin {self.value}>'


if 'beartype' in sys.modules and not isinstance(random.getrandbits, DrawPin):
    raise ImportError('bearverif.drawpin must be imported before beartype')
if not isinstance(random.getrandbits, DrawPin):
    PIN = DrawPin()
    random.getrandbits = PIN
else:
    PIN = random.getrandbits
