"""Statement-level symbolic execution of generated raisers and wrappers.

Produces a *trace*: program-ordered guarded events

    VIOLATION(pc, kwargs)   call of __beartype_get_violation(...)
    RAISE(pc, what)         raise of a violation object / anything else
    WARN(pc, what)          __beartype_warn(str(v), type(v))
    CALL(pc, args, kwargs)  __beartype_func(*args, **kwargs)  (callee may raise: `callee_raises`)
    RETURN(pc, value)

Control flow is merged (phi = If) after each `if`, loops over ``args[k:]`` and over
the excess-keyword generator are unrolled over the modelled arity / name alphabet.
"""
from __future__ import annotations
import ast
import z3

from .universe import Universe, Unsupported
from .sym import (Ctx, Evaluator, V, VObj, VBool, VInt, VConc, VArgs, VKwargs, VNameSet,
                  VBoundKeys, AND, merge_values, parse_func, Event)


class VViol(V):
    """The object returned by the k-th call of __beartype_get_violation."""
    __slots__ = ('k', 'derived')

    def __init__(self, k, derived=None):
        self.k, self.derived = k, derived


class TraceEvent:
    __slots__ = ('kind', 'pc', 'data')

    def __init__(self, kind, pc, **data):
        self.kind, self.pc, self.data = kind, pc, data

    def __repr__(self):
        return f'<{self.kind} {list(self.data)}>'


class StmtEvaluator(Evaluator):
    def __init__(self, ctx):
        super().__init__(ctx)
        self.trace: list[TraceEvent] = []
        self.nviol = 0
        self.callee_raises = z3.Bool('callee_raises')
        self.callee_result = None
        self.awaited = False
        self.kill = []

    def settle(self, pc):
        """Live-condition after evaluating an expression that may have propagated an
        exception of the wrapped callable."""
        if self.kill:
            pc = AND(pc, z3.Not(z3.Or(self.kill)))
            self.kill = []
        return pc

    # ---- expression hooks
    def e_Await(self, node, pc):
        self.awaited = True
        return self.eval(node.value, pc)

    def e_Starred(self, node, pc):
        return self.eval(node.value, pc)

    def e_GeneratorExp(self, node, pc):
        # (kwargs[name] for name in kwargs.keys() - KEYWORDABLE)
        if len(node.generators) != 1 or node.generators[0].ifs:
            raise Unsupported('generator expression shape')
        g = node.generators[0]
        src = self.eval(g.iter, pc)
        if not isinstance(src, VNameSet) or not isinstance(g.target, ast.Name):
            raise Unsupported('generator expression over a non-kwargs source')
        out = []
        for name, cond in src.names:
            saved = self.c.env.get(g.target.id)
            self.c.env[g.target.id] = (VConc(name), z3.BoolVal(True))
            v = self.eval(node.elt, AND(pc, cond))
            out.append((cond, v))
            if saved is None:
                del self.c.env[g.target.id]
            else:
                self.c.env[g.target.id] = saved
        return VGuardedSeq(out)

    def call(self, f, args, kwargs, pc, node):
        c = self.c
        if isinstance(f, VConc):
            fn = f.v
            sc = c.scope
            if fn is sc.get('__beartype_get_violation') and fn is not None:
                k = self.nviol
                self.nviol += 1
                self.trace.append(TraceEvent('violation', pc, k=k, args=args, kwargs=kwargs))
                return VViol(k)
            if fn is sc.get('__beartype_warn') and fn is not None:
                what = [a for a in args if isinstance(a, VViol)]
                self.trace.append(TraceEvent('warn', pc, args=args, viol=what[0].k if what else None))
                return VConc(None)
            if fn is sc.get('__beartype_func') and fn is not None:
                self.c.fresh += 1
                res = self.U.obj(f'callee_result{self.c.fresh}')
                self.trace.append(TraceEvent('call', pc, args=args, kwargs=kwargs, result=res,
                                             node=ast.unparse(node)))
                self.callee_result = res
                # the wrapped callable may raise instead of returning
                self.trace.append(TraceEvent('callee_raise', AND(pc, self.callee_raises)))
                self.kill.append(self.callee_raises)
                return VObj(res)
            if (fn is str or fn is type or fn is repr) and len(args) == 1 and isinstance(args[0], VViol):
                return VViol(args[0].k, derived=fn.__name__)
        return super().call(f, args, kwargs, pc, node)

    # ---- statements
    def exec_block(self, stmts, pc):
        """Execute statements under live-condition pc; return the live-condition after."""
        for st in stmts:
            if z3.is_false(pc):
                # unreachable remainder still gets parsed for unsupported constructs
                pass
            pc = self.exec(st, pc)
        return pc

    def exec(self, st, pc):
        m = getattr(self, 's_' + type(st).__name__, None)
        if m is None:
            raise Unsupported(f'statement {type(st).__name__}')
        return m(st, pc)

    def s_Expr(self, st, pc):
        if isinstance(st.value, ast.Constant):
            return pc
        self.eval(st.value, pc)
        return self.settle(pc)

    def s_Pass(self, st, pc):
        return pc

    def s_Assign(self, st, pc):
        if len(st.targets) != 1 or not isinstance(st.targets[0], ast.Name):
            raise Unsupported('assignment target')
        v = self.eval(st.value, pc)
        pc = self.settle(pc)
        # statement-level assignment: paths on which it does not run are dead or merged by s_If
        self.c.env[st.targets[0].id] = (v, z3.BoolVal(True))
        return pc

    def s_Return(self, st, pc):
        v = self.eval(st.value, pc) if st.value is not None else VConc(None)
        pc = self.settle(pc)
        self.trace.append(TraceEvent('return', pc, value=v))
        return z3.BoolVal(False)

    def s_Raise(self, st, pc):
        v = self.eval(st.exc, pc) if st.exc is not None else None
        self.trace.append(TraceEvent('raise', pc, value=v,
                                     viol=v.k if isinstance(v, VViol) and v.derived is None else None))
        return z3.BoolVal(False)

    def s_If(self, st, pc):
        t = self.truth(self.eval(st.test, pc), st.test)
        pc = self.settle(pc)
        env0 = dict(self.c.env)
        pc_then = self.exec_block(st.body, AND(pc, t))
        env_then = self.c.env
        self.c.env = dict(env0)
        pc_else = self.exec_block(st.orelse, AND(pc, z3.Not(t)))
        env_else = self.c.env
        if z3.is_false(pc_then):
            self.c.env = env_else
            return pc_else
        if z3.is_false(pc_else):
            self.c.env = env_then
            return pc_then
        # merge
        merged = {}
        for name in set(env_then) | set(env_else):
            a, b = env_then.get(name), env_else.get(name)
            if a is None or b is None:
                v, bound = a or b
                cond = t if a is not None else z3.Not(t)
                merged[name] = (v, AND(bound, cond))
                continue
            if a[0] is b[0]:
                merged[name] = a if a[1] is b[1] else (a[0], z3.If(t, a[1], b[1]))
                continue
            mv = merge_values(t, a[0], b[0])
            if mv is None:
                # kinds differ: usable only on the branch that defined the newer value
                merged[name] = (a[0], AND(a[1], t))
            else:
                merged[name] = (mv, z3.If(t, a[1], b[1]))
        self.c.env = merged
        return z3.simplify(z3.Or(pc_then, pc_else))

    def s_For(self, st, pc):
        if st.orelse or not isinstance(st.target, ast.Name):
            raise Unsupported('for-loop shape')
        src = self.eval(st.iter, pc)
        if isinstance(src, VArgs):
            seq = [(z3.IntVal(i) < src.n, VObj(src.terms[i])) for i in range(src.start, len(src.terms))]
        elif isinstance(src, VGuardedSeq):
            seq = src.items
        else:
            raise Unsupported(f'for-loop over {type(src).__name__}')
        for cond, v in seq:
            env0 = dict(self.c.env)
            live = AND(pc, cond)
            self.c.env[st.target.id] = (v, z3.BoolVal(True))
            after = self.exec_block(st.body, live)
            # merge env of (iteration ran) vs (did not run)
            env_run = self.c.env
            merged = {}
            for name in set(env_run) | set(env0):
                a, b = env_run.get(name), env0.get(name)
                if a is None or b is None:
                    v2, bound = a or b
                    merged[name] = (v2, AND(bound, cond if a is not None else z3.Not(cond)))
                elif a[0] is b[0]:
                    merged[name] = a
                else:
                    mv = merge_values(cond, a[0], b[0])
                    merged[name] = (mv, z3.If(cond, a[1], b[1])) if mv is not None else (a[0], AND(a[1], cond))
            self.c.env = merged
            pc = z3.simplify(z3.Or(after, AND(pc, z3.Not(cond))))
        return pc

    def s_Try(self, st, pc):
        # generated code contains no try today; a change that adds one around the call-through
        # must be *seen*: record it, then execute the body
        self.trace.append(TraceEvent('try', pc, handlers=[ast.unparse(h) for h in st.handlers],
                                     final=bool(st.finalbody)))
        pc = self.exec_block(st.body, pc)
        pc = self.exec_block(st.orelse, pc)
        return self.exec_block(st.finalbody, pc)


class VGuardedSeq(V):
    __slots__ = ('items',)

    def __init__(self, items):
        self.items = items


class StmtResult:
    def __init__(self, ev: StmtEvaluator, final_pc, fn):
        self.ev = ev
        self.ctx = ev.c
        self.trace = ev.trace
        self.final_pc = final_pc          # falls off the end (implicit return None)
        self.side = ev.c.side
        self.extra = ev.c.extra
        self.events = ev.c.events
        self.is_async = isinstance(fn, ast.AsyncFunctionDef)
        self.awaited = ev.awaited
        self.callee_raises = ev.callee_raises

    def of(self, kind):
        return [e for e in self.trace if e.kind == kind]


def run_function(record, U: Universe, binder, draw=None) -> StmtResult:
    """Symbolically execute a generated function.  ``binder(fn_ast, ctx)`` installs the
    parameters' symbolic values into ``ctx.env``."""
    fn = parse_func(record.code)
    ctx = Ctx(U, record.scope, draw)
    ev = StmtEvaluator(ctx)
    binder(fn, ctx)
    final = ev.exec_block(fn.body, z3.BoolVal(True))
    return StmtResult(ev, final, fn)


def bind_single_pith(x):
    def binder(fn, ctx):
        ctx.env[fn.args.args[0].arg] = (VObj(x), z3.BoolVal(True))
    return binder


def bind_call_shape(U: Universe, maxn: int, names: list[str]):
    """Symbolic call shape for a wrapper: n in [0, maxn] positional arguments and, for every
    name of the alphabet, an optional keyword argument."""
    n = z3.Int('nargs')
    terms = [U.obj(f'a{i}') for i in range(maxn)]
    has = {nm: z3.Bool(f'has_{nm}') for nm in names}
    kw = {nm: U.obj(f'kw_{nm}') for nm in names}
    shape = {'n': n, 'args': terms, 'has': has, 'kw': kw}

    def binder(fn, ctx):
        if fn.args.vararg is None or fn.args.kwarg is None:
            raise Unsupported('wrapper signature is not (*args, ..., **kwargs)')
        ctx.env[fn.args.vararg.arg] = (VArgs(n, terms), z3.BoolVal(True))
        ctx.env[fn.args.kwarg.arg] = (VKwargs(has, kw), z3.BoolVal(True))
        ctx.extra.append(z3.And(n >= 0, n <= maxn))
    return binder, shape


def guard_of_raiser(res: StmtResult):
    """Condition under which a raiser / wrapper section lets the object through:
    neither a violation is built nor anything raised."""
    bad = [e.pc for e in res.trace if e.kind in ('violation', 'raise', 'warn')]
    return z3.Not(z3.Or(bad)) if bad else z3.BoolVal(True)
