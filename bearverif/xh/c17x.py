"""C17 — BeartypeConf is memoised, comparable and validated uniformly (Engine X catalogue)."""
from __future__ import annotations
import itertools
from .harness import Spec

SETUP = '''
import os
os.environ.pop('BEARTYPE_IS_COLOR', None)
#@ENV@
import itertools
from beartype import BeartypeDecorPlace, BeartypeViolationVerbosity, BeartypeHintOverrides
from beartype.roar import BeartypeConfParamException
from beartype._conf import confmain as _confmain

LAST = ['']
BOOL_OPTS = ['claw_is_pep526', 'is_debug', 'is_pep484_tower', 'is_pep557_fields', 'is_random']
ENUMS = {
    'strategy': list(BeartypeStrategy),
    'violation_verbosity': list(BeartypeViolationVerbosity),
    'claw_decor_place_func': list(BeartypeDecorPlace),
    'claw_decor_place_type': list(BeartypeDecorPlace),
}
CLASSES = [VerifError, VerifWarning, int, None, 3]
from beartype import FrozenDict
import collections.abc as _cabc
# values for the two collection-valued options, valid and invalid, picked by index (concrete after pick)
SKIPS = [(), ('a',), ('a', 'b'), ('b', 'a'), ['a'], {'a'}, frozenset({'a'}), ('a', 1), ('a b',), 3, None, ('a.b',), ('',)]
# FrozenDict.__or__ calls dict(other): under CrossHair the patched dict() hands back its own mapping
# shell, for which the C-level dict.__or__ answers NotImplemented.  All values here are concrete, so
# the real method is simply run with tracing switched off (listed as a stub in the evidence).
def _untraced(fn):
    def run(*a, **k):
        try:
            from crosshair.tracers import NoTracing, is_tracing
        except Exception:
            return fn(*a, **k)
        if not is_tracing():
            return fn(*a, **k)
        with NoTracing():
            return fn(*a, **k)
    return run


FrozenDict.__or__ = _untraced(FrozenDict.__or__)

# with the numeric tower: overrides of float / complex equal to, or conflicting with, the tower's own
TOWER_OVS = [BeartypeHintOverrides({}), FrozenDict({float: float | int}), FrozenDict({complex: complex | float | int}),
             FrozenDict({float: float | int, complex: str}), FrozenDict({complex: str}), FrozenDict({float: str}),
             FrozenDict({float: float | int, complex: complex | float | int}), FrozenDict({int: str}),
             FrozenDict({float: str, complex: complex | float | int})]
TOWER_MAP = {float: float | int, complex: complex | float | int}
OVS = [BeartypeHintOverrides({}), BeartypeHintOverrides({int: float}), BeartypeHintOverrides({str: bytes}),
       BeartypeHintOverrides({int: float}), {int: float}, 3, None, FrozenDict({int: float})]


def pick(lst, i):
    """lst[i] by explicit comparison: forks on the index and yields the *concrete* element (a
    symbolic subscript would give CrossHair a symbolic class ranging over its whole type repository)."""
    for k, v in enumerate(lst):
        if i == k:
            return v
    raise IndexError(i)


def valid(opt, v):
    """The documented per-option validity predicate."""
    if opt in BOOL_OPTS:
        return type(v) is bool
    if opt == 'is_color':
        return v is None or type(v) is bool
    if opt in ENUMS:
        return any(v is m for m in ENUMS[opt])
    if opt.startswith('violation_') and opt.endswith('type'):
        return v is None or (isinstance(v, type) and issubclass(v, Exception))     # None = 'not set'
    if opt == 'warning_cls_on_decorator_exception':
        return v is None or (isinstance(v, type) and issubclass(v, Warning))
    if opt == 'claw_skip_package_names':
        # documented: a collection of "."-delimited identifiers; configurations are hashable, so must the collection be
        try:
            {v: 0}
        except TypeError:
            return False
        return isinstance(v, _cabc.Collection) and all(
            isinstance(x, str) and x != '' and all(p.isidentifier() for p in x.split('.')) for x in v)
    if opt == 'hint_overrides':
        return isinstance(v, FrozenDict)
    raise KeyError(opt)


def jointly_valid(kw):
    """Cross-option rule (documented): with is_pep484_tower on, an override of float or complex other
    than the tower's own expansion conflicts."""
    if kw.get('is_pep484_tower') is True and isinstance(kw.get('hint_overrides'), FrozenDict):
        ov = kw['hint_overrides']
        for c in (float, complex):
            if c in ov and ov[c] != TOWER_MAP[c]:
                return False
    return True


def same(a, b):
    """Typed equality: what 'equal keyword arguments' means for a user (mappings: by content)."""
    if isinstance(a, FrozenDict) and isinstance(b, FrozenDict):
        return a == b
    return type(a) is type(b) and (a is b or a == b)


VTYPES = ('violation_door_type', 'violation_param_type', 'violation_return_type')


def effective(kw):
    """The option values a creation *means*, after the documented defaulting: an unset
    violation_door/param/return_type takes violation_type if that is set, else its documented
    default; violation_type itself stays as passed (None when not passed); is_color=None takes the
    environment default.  Two creations are 'equal keyword arguments' for a user exactly when
    these coincide -- BeartypeConf(violation_type=X) and BeartypeConf(violation_door_type=X,
    violation_param_type=X, violation_return_type=X) differ (violation_type reads back X / None)."""
    full = {o: kw.get(o, DEFAULTS[o]) for o in DEFAULTS}
    vt = full.get('violation_type')
    for o in VTYPES:
        if kw.get(o) is None:
            full[o] = vt if vt is not None else DEFAULTS[o]
    w = full.get('warning_cls_on_decorator_exception')
    if getattr(w, '__name__', '') == '_BeartypeConfReduceDecoratorExceptionToWarningDefault':
        # the placeholder conf.kwargs holds for 'not passed': reads back as None
        full['warning_cls_on_decorator_exception'] = None
    if os.environ.get('BEARTYPE_IS_COLOR') is not None:
        # documented environment-variable adjustment: the variable wins over whatever was passed
        full['is_color'] = {'True': True, 'False': False, 'None': None}[os.environ['BEARTYPE_IS_COLOR']]
    elif full.get('is_color') is None:
        full['is_color'] = DEFAULT_IS_COLOR
    if full.get('is_pep484_tower') is True and isinstance(full.get('hint_overrides'), FrozenDict):
        # documented numeric-tower adjustment: the tower's expansions join the overrides
        full['hint_overrides'] = FrozenDict({**full['hint_overrides'], **TOWER_MAP})
    return full


def create(kw):
    try:
        return BeartypeConf(**kw), None
    except Exception as e:          # never BaseException under CrossHair
        return None, e


def reset():
    # start every path from an empty memo table (the property quantifies over histories that
    # begin somewhere; each harness builds its own history)
    _confmain._beartype_conf_args_to_conf.clear()


def check_history(kws):
    """kws: list of kwargs dicts created in this order.  True iff every clause of C17 holds."""
    reset()
    try:
        return _check_history(kws)
    finally:
        reset()         # no symbolic key may outlive the traced region


def _check_history(kws):
    made = []
    for kw in kws:
        if callable(kw):                 # an entry computed from the configurations made so far
            kw = kw(made)
            if kw is None:
                continue
        conf, exc = create(kw)
        ok = all(valid(o, v) for o, v in kw.items()) and jointly_valid(kw)
        if ok and conf is None:
            LAST[0] = f'valid kwargs {kw!r} rejected with {type(exc).__name__}: {str(exc)[:120]}'
            return False
        if not ok:
            if conf is not None:
                LAST[0] = f'invalid kwargs {kw!r} accepted (after {len(made)} earlier creation(s)): returned {conf!r}'
                return False
            if type(exc) is not BeartypeConfParamException:
                LAST[0] = f'invalid kwargs {kw!r} raised {type(exc).__name__} instead of BeartypeConfParamException'
                return False
            continue
        # read back: passed options as passed, unpassed ones as documented
        eff = effective(kw)
        for o, want in eff.items():
            got = getattr(conf, o)
            if not same(got, want):
                LAST[0] = f'option {o} reads back {got!r}, expected {want!r} for {kw!r} (after {len(made)} earlier creation(s))'
                return False
        c2, e2 = create(conf.kwargs)
        if c2 is not conf:
            LAST[0] = f'BeartypeConf(**conf.kwargs) is not conf for {kw!r}'
            return False
        made.append((kw, conf))
    for (k1, c1), (k2, c2) in itertools.combinations(made, 2):
        full1, full2 = effective(k1), effective(k2)
        eq = all(same(full1[o], full2[o]) for o in full1)
        if eq and c1 is not c2:
            LAST[0] = f'equal kwargs {k1!r} / {k2!r} gave two objects'
            return False
        if not eq and (c1 is c2 or c1 == c2):
            LAST[0] = f'differing kwargs {k1!r} / {k2!r} gave equal configurations'
            return False
        if (c1 == c2) and c1.__hash__() != c2.__hash__():   # (the hash() builtin is shimmed by CrossHair)
            LAST[0] = 'equal configurations with different hashes'
            return False
    LAST[0] = 'ok'
    return True


_d = BeartypeConf()
DEFAULTS = {o: getattr(_d, o) for o in BOOL_OPTS + list(ENUMS) +
            ['violation_type', 'violation_door_type', 'violation_param_type', 'violation_return_type',
             'warning_cls_on_decorator_exception', 'claw_skip_package_names', 'hint_overrides', 'is_pep484_tower']}
DEFAULTS['is_color'] = None
DEFAULT_IS_COLOR = _d.is_color
'''

NUM = 'Union[bool, int, None]'
# (is_pep484_tower needs FrozenDict.__or__ to run untraced, see SETUP)
BOOL_OPTS = ['claw_is_pep526', 'is_debug', 'is_pep484_tower', 'is_pep557_fields', 'is_random', 'is_color']
ENUM_OPTS = {'strategy': 3, 'violation_verbosity': 3, 'claw_decor_place_func': 3, 'claw_decor_place_type': 3}
CLS_OPTS = ['violation_type', 'violation_door_type', 'violation_param_type', 'violation_return_type',
            'warning_cls_on_decorator_exception']


def _num_pre(names):
    out = []
    for n in names:
        out.append(f'{n} is None or -1 <= {n} <= 2')
    return out


def spec_bool_pair(a, b, third=None):
    """History: create({a: v1, b: w1}); create({b: w2, a: v2}) [; create({a: v3})]."""
    params = [('v1', NUM), ('w1', NUM), ('v2', NUM), ('w2', NUM)]
    hist = f"[{{'{a}': v1, '{b}': w1}}, {{'{b}': w2, '{a}': v2}}]"
    names = ['v1', 'w1', 'v2', 'w2']
    if third:
        params.append(('v3', NUM))
        names.append('v3')
        hist = hist[:-1] + f", {{'{third}': v3}}]"
    warm = ['True, False, True, False' + (', True' if third else ''), '1, None, 0, 2' + (', 2' if third else ''),
            'False, True, 0, 1' + (', None' if third else '')]
    return Spec(f'bool_{a}_{b}' + (f'_{third}' if third else ''), params, f'return check_history({hist})', setup=SETUP,
                pre=_num_pre(names), warm=warm, timeout=150, stubs=False)


def spec_single(a):
    params = [('v1', NUM), ('v2', NUM)]
    return Spec(f'single_{a}', params, f"return check_history([{{'{a}': v1}}, {{'{a}': v2}}])", setup=SETUP,
                pre=_num_pre(['v1', 'v2']), warm=['True, False', '1, None', '2, 0'], timeout=120, stubs=False)


def spec_triple(a):
    """Three creations of one option: create({a: v1}); create({a: v2}); create({a: v3})."""
    params = [('v1', NUM), ('v2', NUM), ('v3', NUM)]
    return Spec(f'triple_{a}', params, f"return check_history([{{'{a}': v1}}, {{'{a}': v2}}, {{'{a}': v3}}])",
                setup=SETUP, pre=_num_pre(['v1', 'v2', 'v3']), warm=['True, False, True', '1, None, 0'],
                timeout=200, stubs=False)


def spec_enum(a, b):
    """Enum option a (member index or a non-member) with boolean-ish option b."""
    n = ENUM_OPTS[a]
    params = [('i1', 'int'), ('i2', 'int'), ('w1', NUM), ('w2', NUM)]
    body = (f"vals = ENUMS['{a}'] + [None, 1, 'O1']\n"
            f"return check_history([{{'{a}': pick(vals, i1), '{b}': w1}}, {{'{b}': w2, '{a}': pick(vals, i2)}}])")
    return Spec(f'enum_{a}_{b}', params, body, setup=SETUP,
                pre=[f'0 <= i1 < {n + 3}', f'0 <= i2 < {n + 3}'] + _num_pre(['w1', 'w2']),
                warm=['0, 1, True, False', f'{n}, 0, 1, None', f'{n + 1}, {n + 2}, False, False'], timeout=150, stubs=False)


def spec_enum_pair(a, b):
    """Two enum-valued options (e.g. the two claw_decor_place_* options, whose members come from one enum) over
    members and non-members, two creations in different keyword orders."""
    na, nb = ENUM_OPTS[a], ENUM_OPTS[b]
    params = [('i1', 'int'), ('j1', 'int'), ('i2', 'int'), ('j2', 'int')]
    body = (f"va = ENUMS['{a}'] + [None]\nvb = ENUMS['{b}'] + [None]\n"
            f"return check_history([{{'{a}': pick(va, i1), '{b}': pick(vb, j1)}}, {{'{b}': pick(vb, j2), '{a}': pick(va, i2)}}])")
    return Spec(f'enumpair_{a}_{b}', params, body, setup=SETUP,
                pre=[f'0 <= i1 <= {na}', f'0 <= i2 <= {na}', f'0 <= j1 <= {nb}', f'0 <= j2 <= {nb}'],
                warm=['0, 1, 1, 0', '2, 0, 0, 2', f'{na}, 0, 0, {nb}'], timeout=400, stubs=False)


MENUS = {
    'bool': "[True, False, 1, None]",
    'enum': "ENUMS['{o}'] + [None]",
    'cls': "[VerifError, VerifWarning, None, int]",
    'claw_skip_package_names': "SKIPS[:7]",
    'hint_overrides': "OVS[:6]",
}
MENU_LEN = {'bool': 4, 'cls': 4, 'claw_skip_package_names': 7, 'hint_overrides': 6}


def _menu(o):
    if o in BOOL_OPTS:
        return MENUS['bool'], 4
    if o in ENUM_OPTS:
        return MENUS['enum'].format(o=o), ENUM_OPTS[o] + 1
    if o in CLS_OPTS:
        return MENUS['cls'], 4
    return MENUS[o], MENU_LEN[o]


ALL_OPTS = None


def all_options():
    return BOOL_OPTS + list(ENUM_OPTS) + CLS_OPTS + ['claw_skip_package_names', 'hint_overrides']


def spec_generic_pair(a, b):
    """Any two options, each over a small menu of valid and invalid values picked by a symbolic index; two
    creations with the keywords in opposite orders (plus the kwargs round trip of every valid one)."""
    ma, na = _menu(a)
    mb, nb = _menu(b)
    params = [('i1', 'int'), ('j1', 'int'), ('i2', 'int'), ('j2', 'int')]
    body = (f"A = {ma}\nB = {mb}\n"
            f"return check_history([{{'{a}': pick(A, i1), '{b}': pick(B, j1)}}, {{'{b}': pick(B, j2), '{a}': pick(A, i2)}}])")
    return Spec(f'pair_{a}__{b}', params, body, setup=SETUP,
                pre=[f'0 <= i1 < {na}', f'0 <= i2 < {na}', f'0 <= j1 < {nb}', f'0 <= j2 < {nb}'],
                warm=['0, 0, 0, 0', '1, 1, 0, 0', f'{na - 1}, {nb - 1}, 0, 1'], timeout=600, stubs=False)


def spec_cls(a):
    """Class-valued option a: valid and invalid classes by index, two creations."""
    params = [('i1', 'int'), ('i2', 'int')]
    body = f"return check_history([{{'{a}': pick(CLASSES, i1)}}, {{'{a}': pick(CLASSES, i2)}}])"
    return Spec(f'cls_{a}', params, body, setup=SETUP, pre=['0 <= i1 < 5', '0 <= i2 < 5'],
                warm=['0, 1', '4, 3', '2, 2'], timeout=150, stubs=False)


def spec_cls_pair(a, b):
    """Two class-valued options (e.g. violation_type and the violation_door_type it defaults)."""
    params = [('i1', 'int'), ('j1', 'int'), ('i2', 'int'), ('j2', 'int')]
    body = (f"P = [VerifError, VerifWarning, None]\n"
            f"return check_history([{{'{a}': pick(P, i1), '{b}': pick(P, j1)}}, {{'{b}': pick(P, j2), '{a}': pick(P, i2)}}])")
    return Spec(f'clspair_{a}_{b}', params, body, setup=SETUP,
                pre=['0 <= i1 < 3', '0 <= i2 < 3', '0 <= j1 < 3', '0 <= j2 < 3'],
                warm=['0, 1, 0, 1', '2, 2, 0, 0', '0, 0, 0, 2'], timeout=200, stubs=False)


def spec_cls_quad(n):
    """violation_type together with the three options it defaults, two creations; n = size of the
    class domain (2: {VerifError, None}; 3: + VerifWarning)."""
    params = [(v, 'int') for v in ('i1', 'j1', 'i2', 'j2', 'k2', 'l2')]
    body = ("P = [VerifError, None, VerifWarning]\n"
            "return check_history([{'violation_type': pick(P, i1), 'violation_door_type': pick(P, j1)}, "
            "{'violation_return_type': pick(P, l2), 'violation_param_type': pick(P, k2), "
            "'violation_door_type': pick(P, j2), 'violation_type': pick(P, i2)}])")
    return Spec(f'clsquad_{n}', params, body, setup=SETUP,
                pre=[f'0 <= {v} < {n}' for v, _t in params],
                warm=['0, 1, 1, 0, 0, 0', '0, 0, 0, 1, 1, 1', '1, 1, 1, 1, 1, 0'], timeout=200 if n == 2 else 600, stubs=False)


def spec_coll(a, n, b=None):
    """Collection-valued option a (claw_skip_package_names / hint_overrides): valid and invalid values
    by index, two creations, optionally next to a boolean-ish option b."""
    lst = 'SKIPS' if a == 'claw_skip_package_names' else 'OVS'
    params = [('i1', 'int'), ('i2', 'int')] + ([('w1', NUM), ('w2', NUM)] if b else [])
    k1 = f"{{'{a}': pick({lst}, i1)" + (f", '{b}': w1}}" if b else '}')
    k2 = (f"{{'{b}': w2, " if b else '{') + f"'{a}': pick({lst}, i2)}}"
    return Spec(f'coll_{a}' + (f'_{b}' if b else ''), params, f'return check_history([{k1}, {k2}])', setup=SETUP,
                pre=[f'0 <= i1 < {n}', f'0 <= i2 < {n}'] + (_num_pre(['w1', 'w2']) if b else []),
                warm=['0, 1' + (', True, False' if b else ''), '4, 2' + (', 1, None' if b else '')], timeout=300, stubs=False)


def spec_tower():
    """is_pep484_tower (picked, so concrete) together with hint_overrides that repeat or contradict the
    tower's own expansions; two creations."""
    params = [(v, 'int') for v in ('t1', 'o1', 't2', 'o2')]
    body = ("T = [True, False, 1, None]\n"
            "return check_history([{'is_pep484_tower': pick(T, t1), 'hint_overrides': pick(TOWER_OVS, o1)}, "
            "{'hint_overrides': pick(TOWER_OVS, o2), 'is_pep484_tower': pick(T, t2)}])")
    return Spec('tower_overrides', params, body, setup=SETUP,
                pre=['0 <= t1 < 4', '0 <= t2 < 4', '0 <= o1 < 9', '0 <= o2 < 9'],
                warm=['0, 0, 1, 1', '0, 3, 0, 6', '1, 5, 0, 1'], timeout=600, stubs=False)


def spec_lookalike(a):
    """Boolean-ish option a over a menu of values that compare equal to booleans without being booleans
    (1, 0, 1.0, 0.0) next to True / False / None, picked by a symbolic index (so float values stay
    concrete); two creations."""
    params = [('i1', 'int'), ('i2', 'int')]
    body = (f"M = [True, False, 1, 0, 1.0, 0.0, None, 'True']\n"
            f"return check_history([{{'{a}': pick(M, i1)}}, {{'{a}': pick(M, i2)}}])")
    return Spec(f'lookalike_{a}', params, body, setup=SETUP, pre=['0 <= i1 < 8', '0 <= i2 < 8'],
                warm=['0, 1', '2, 4', '6, 0'], timeout=200, stubs=False)


def spec_env_color(value):
    """is_color (valid and invalid values) while the BEARTYPE_IS_COLOR environment variable is set."""
    params = [('i1', 'int'), ('i2', 'int'), ('w', NUM)]
    body = ("M = [True, False, None, 1, 'junk', 0.0]\n"
            "return check_history([{'is_color': pick(M, i1)}, {'is_debug': w, 'is_color': pick(M, i2)}])")
    setup = SETUP.replace('#@ENV@', f"os.environ['BEARTYPE_IS_COLOR'] = {value!r}")
    return Spec(f'envcolor_{value}', params, body, setup=setup, pre=['0 <= i1 < 6', '0 <= i2 < 6'] + _num_pre(['w']),
                warm=['0, 1, True', '2, 0, False', '1, 2, None'], timeout=200, stubs=False)


def spec_kwargs_lookalike(a):
    """create({a: v1}); then create(**{**first.kwargs, a: v2}) -- every option spelled out in its defaulted form,
    one of them replaced by a value from the look-alike menu."""
    params = [('i1', 'int'), ('i2', 'int')]
    body = (f"M = [True, False, 1, 0, 1.0, None]\n"
            f"def second(made):\n"
            f"    if not made:\n        return None\n"
            f"    kw = dict(made[-1][1].kwargs)\n    kw['{a}'] = pick(M, i2)\n    return kw\n"
            f"return check_history([{{'{a}': pick(M, i1)}}, second])")
    return Spec(f'kwlook_{a}', params, body, setup=SETUP, pre=['0 <= i1 < 6', '0 <= i2 < 6'],
                warm=['0, 1', '0, 2', '1, 3'], timeout=300, stubs=False)


def spec_cls_bool(a, b):
    params = [('i1', 'int'), ('i2', 'int'), ('w1', NUM), ('w2', NUM)]
    body = (f"return check_history([{{'{a}': pick(CLASSES, i1), '{b}': w1}}, {{'{b}': w2, '{a}': pick(CLASSES, i2)}}])")
    return Spec(f'cls_{a}_{b}', params, body, setup=SETUP,
                pre=['0 <= i1 < 3', '0 <= i2 < 3'] + _num_pre(['w1', 'w2']),
                warm=['0, 1, True, False', '2, 2, 1, None'], timeout=200, stubs=False)


def specs(tier, seed=0):
    import random as _random
    opts = all_options()
    every_pair = [(a, b) for a, b in itertools.combinations(opts, 2)]
    out = [spec_single(a) for a in BOOL_OPTS]
    pairs = list(itertools.combinations(BOOL_OPTS, 2))
    if tier == 'quick':
        out = [spec_single('is_debug'), spec_single('is_random'), spec_single('is_color')]
        out += [spec_bool_pair(*pairs[i]) for i in (0, 5)]
        out += [spec_enum('strategy', 'is_debug'), spec_cls('violation_type'), spec_cls('warning_cls_on_decorator_exception'),
                spec_cls_pair('violation_type', 'violation_door_type'), spec_cls_quad(2),
                spec_coll('claw_skip_package_names', 13), spec_coll('hint_overrides', 8), spec_tower(),
                spec_lookalike('is_debug'), spec_lookalike('is_color'),
                spec_enum_pair('claw_decor_place_func', 'claw_decor_place_type'), spec_env_color('True'),
                spec_kwargs_lookalike('is_debug')]
        # a seed-dependent handful of the 136 option pairs (all of them in the thorough tier)
        rng = _random.Random(f'c17:{seed}')
        out += [spec_generic_pair(a, b) for a, b in rng.sample(every_pair, 4)]
        return out
    out += [spec_bool_pair(a, b) for a, b in pairs]
    out += [spec_triple(a) for a in BOOL_OPTS]
    for i, a in enumerate(ENUM_OPTS):
        for b in (BOOL_OPTS[i % len(BOOL_OPTS)], BOOL_OPTS[(i + 2) % len(BOOL_OPTS)]):
            out.append(spec_enum(a, b))
    for a, b in (('violation_type', 'violation_door_type'), ('violation_type', 'violation_param_type'),
                 ('violation_type', 'violation_return_type'), ('violation_door_type', 'violation_return_type')):
        out.append(spec_cls_pair(a, b))
    out.append(spec_cls_quad(2))
    out.append(spec_cls_quad(3))
    out += [spec_lookalike(a) for a in BOOL_OPTS]
    out += [spec_generic_pair(a, b) for a, b in every_pair]
    out += [spec_env_color(v) for v in ('True', 'False', 'None')]
    out += [spec_kwargs_lookalike(a) for a in BOOL_OPTS if a != 'is_color']
    out += [spec_enum_pair('claw_decor_place_func', 'claw_decor_place_type'), spec_enum_pair('strategy', 'violation_verbosity'),
            spec_enum_pair('claw_decor_place_type', 'strategy')]
    out += [spec_tower(), spec_coll('claw_skip_package_names', 13), spec_coll('hint_overrides', 8),
            spec_coll('claw_skip_package_names', 13, 'is_debug'), spec_coll('hint_overrides', 8, 'is_random')]
    for i, a in enumerate(CLS_OPTS):
        out.append(spec_cls(a))
        out.append(spec_cls_bool(a, BOOL_OPTS[i % len(BOOL_OPTS)]))
    return out
