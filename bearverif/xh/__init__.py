"""Engine X — CrossHair on the real API (DESIGN §1.2)."""
