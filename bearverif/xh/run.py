"""Runs `crosshair check` on one condition with contract short-circuiting switched off.

    python -m bearverif.xh.run --per_condition_timeout T file.py:LINE
"""
import sys


def main():
    import crosshair.core as core

    def _enter(self):
        return None

    def _exit(self, exc_type, exc_value, tb):
        return False
    core.ShortCircuitingContext.__enter__ = _enter
    core.ShortCircuitingContext.__exit__ = _exit
    from crosshair.main import main as xmain
    sys.argv = ['crosshair', 'check', '--report_all'] + sys.argv[1:]
    xmain()


if __name__ == '__main__':
    main()
