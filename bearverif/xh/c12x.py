"""C12 (Engine X part): V.is_valid == boolean meaning == is_bearable(Annotated[object, V]) == diagnosis."""
from __future__ import annotations
import itertools
from .harness import Spec

SETUP = '''
import re
from beartype.roar import BeartypeDoorHintViolation
LAST = ['']

def diagnosis_values(msg):
    """The True/False column of the violation message's diagnosis, top to bottom."""
    out = []
    for line in msg.split(chr(10)):
        m = re.match(r'^\\s*~?\\s*(True|False) ==', line)
        if m:
            out.append(m.group(1) == 'True')
    return out


def preorder(tree, x):
    """Values of every node of the expression tree in pre-order (the boolean meaning)."""
    op = tree[0]
    if op == 'atom':
        return [bool(tree[2](x))]
    if op == 'not':
        sub = preorder(tree[1], x)
        return [not sub[0]] + sub
    a, b = preorder(tree[1], x), preorder(tree[2], x)
    v = (a[0] and b[0]) if op == 'and' else (a[0] or b[0])
    return [v] + a + b


def check(x, V, TREE, HINT):
    want = preorder(TREE, x)
    meaning = want[0]
    iv = V.is_valid(x)
    if bool(iv) != meaning:
        LAST[0] = f'is_valid({x!r}) is {iv!r}, the boolean meaning is {meaning}'
        return False
    ib = is_bearable(x, HINT)
    if ib != meaning:
        LAST[0] = f'is_bearable({x!r}) is {ib}, the boolean meaning is {meaning}'
        return False
    try:
        die_if_unbearable(x, HINT)
        raised = None
    except Exception as e:
        raised = e
    if meaning:
        if raised is not None:
            LAST[0] = f'die_if_unbearable raised {type(raised).__name__} on a satisfying object {x!r}'
            return False
    else:
        if type(raised) is not BeartypeDoorHintViolation:
            LAST[0] = f'die_if_unbearable gave {type(raised).__name__} on a violating object {x!r}'
            return False
        got = diagnosis_values(str(raised))
        if got != want:
            LAST[0] = f'diagnosis {got} differs from the meaning of the sub-expressions {want} for {x!r}'
            return False
    LAST[0] = 'ok'
    return True
'''

# atoms: (validator source, meaning source)
INT_ATOMS = [
    ('Is[lambda v: v > 3]', 'lambda v: v > 3'),
    ('Is[lambda v: v % 2 == 0]', 'lambda v: v % 2 == 0'),
    ('IsEqual[5]', 'lambda v: v == 5'),
    ('IsEqual[False]', 'lambda v: v == False'),
    ('IsEqual[0]', 'lambda v: v == 0'),
    ('~IsEqual[True]', 'lambda v: not (v == True)'),
    ('IsInstance[bool]', 'lambda v: isinstance(v, bool)'),
]
OBJ_ATOMS = [
    ('IsInstance[int]', 'lambda v: isinstance(v, int)'),
    ('IsInstance[uc.UA]', 'lambda v: isinstance(v, uc.UA)'),
    ('IsSubclass[uc.UA]', 'lambda v: isinstance(v, type) and issubclass(v, uc.UA)'),
    ("IsAttr['n', Is[lambda n: isinstance(n, int) and n > 2]]", "lambda v: hasattr(v, 'n') and isinstance(v.n, int) and v.n > 2"),
    ("IsAttr['n', IsEqual[1]]", "lambda v: hasattr(v, 'n') and v.n == 1"),
    ('IsEqual[None]', 'lambda v: v == None'),
    ("IsAttr['n', IsAttr['real', IsEqual[2]]]", "lambda v: hasattr(v, 'n') and hasattr(v.n, 'real') and v.n.real == 2"),
]


def exprs(atoms, tier):
    """(validator source, tree source) pairs."""
    A = [(v, f"('atom', {i}, {m})") for i, (v, m) in enumerate(atoms)]
    out = list(A)
    out += [(f'~({v})', f"('not', {t})") for v, t in A[:3]]
    pairs = list(itertools.combinations(A, 2))
    if tier == 'quick':
        pairs = pairs[:4]
    for (v1, t1), (v2, t2) in pairs:
        out.append((f'({v1}) & ({v2})', f"('and', {t1}, {t2})"))
        out.append((f'({v1}) | ({v2})', f"('or', {t1}, {t2})"))
    # depth 2/3
    (v1, t1), (v2, t2), (v3, t3) = A[0], A[1], A[2]
    out.append((f'(({v1}) & ~({v3})) | ({v2})', f"('or', ('and', {t1}, ('not', {t3})), {t2})"))
    out.append((f'~(({v1}) | ({v2})) & ({v3})', f"('and', ('not', ('or', {t1}, {t2})), {t3})"))
    out.append((f'~~({v2})', f"('not', ('not', {t2}))"))
    if tier != 'quick':
        out.append((f'(({v1}) | ({v2})) & (({v2}) | ({v3}))', f"('and', ('or', {t1}, {t2}), ('or', {t2}, {t3}))"))
        out.append((f'~(({v1}) & ({v2}) & ({v3}))', f"('not', ('and', ('and', {t1}, {t2}), {t3}))"))
    return out


def specs(tier, seed=0):
    out = []
    for kind, atoms in (('int', INT_ATOMS), ('obj', OBJ_ATOMS)):
        es = exprs(atoms, tier)
        if tier == 'quick':
            es = es[::2]
        for k, (vsrc, tsrc) in enumerate(es):
            setup = SETUP + f'\nV = {vsrc}\nTREE = {tsrc}\nHINT = Annotated[object, V]\n'
            if kind == 'int':
                params = [('x', 'int')]
                body = 'return check(x, V, TREE, HINT)'
                pre = []
                warm = ['5', '0', '4', '7', '-1']
            else:
                params = [('i', 'int'), ('k', 'int')]
                setup += ('\n\ndef pick_obj(i, k):\n'
                          '    objs = [k, None, uc.UA(k), uc.UH(n=k), uc.UH(), int, uc.UA, uc.UB, uc.UH(n=None)]\n'
                          '    for j, o in enumerate(objs):\n        if i == j:\n            return o\n    raise IndexError(i)\n')
                body = 'return check(pick_obj(i, k), V, TREE, HINT)'
                pre = ['0 <= i < 9']
                warm = [f'{j}, {kk}' for j in range(9) for kk in (1, 3)]
            out.append(Spec(f'{kind}_{k}', params, body, setup=setup, pre=pre, warm=warm, timeout=120, stubs=True))
    return out
