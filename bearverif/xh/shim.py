"""Harness-side hygiene for running beartype's real functions under CrossHair.

Import this module *first* in every harness.  It

* pins ``random.getrandbits`` (bearverif.drawpin) before beartype is imported, so the draw is a
  harness parameter shared by the fast path and the error path;
* installs an import hook that wraps ``callable_cached`` so that calls whose arguments include a
  CrossHair proxy bypass the memo table (the fallback the real code takes for unhashable
  arguments) -- only when BEARVERIF_XH=1 (i.e. under CrossHair, not in replays);
* optionally (BEARVERIF_XH_STUBS=1) gives ``represent_object`` / ``represent_pith`` constant
  bodies by ``__code__`` swap: formatting is not the subject of these harnesses.
"""
from __future__ import annotations
import importlib.abc
import importlib.machinery
import importlib.util
import os
import sys

ROOT = os.path.dirname(os.path.dirname(os.path.dirname(os.path.abspath(__file__))))
if ROOT not in sys.path:
    sys.path.insert(0, ROOT)
import bearverif  # noqa: E402  (adds VERIF_REPO to sys.path, pins the draw)
from bearverif.drawpin import PIN  # noqa: E402

UNDER_XH = os.environ.get('BEARVERIF_XH') == '1'
STUBS = os.environ.get('BEARVERIF_XH_STUBS') == '1'


def _has_proxy(args):
    try:
        from crosshair.util import CrossHairValue
        from crosshair.tracers import NoTracing
    except Exception:
        return False
    with NoTracing():
        for a in args:
            if isinstance(a, CrossHairValue):
                return True
            if type(a) is tuple:
                for b in a:
                    if isinstance(b, CrossHairValue):
                        return True
    return False


def _patch_cachecall(mod):
    import functools
    orig = mod.callable_cached

    def callable_cached(func):
        cached = orig(func)

        @functools.wraps(func)
        def bypassing(*args):
            if _has_proxy(args):
                return func(*args)
            return cached(*args)
        bypassing.__wrapped__ = func
        return bypassing
    mod.callable_cached = callable_cached


class _Finder(importlib.abc.MetaPathFinder):
    TARGET = 'beartype._util.cache.utilcachecall'

    def find_spec(self, name, path, target=None):
        if name != self.TARGET:
            return None
        spec = importlib.machinery.PathFinder.find_spec(name, path)
        if spec is None:
            return None
        real = spec.loader

        class Loader(importlib.abc.Loader):
            def create_module(self, s):
                return real.create_module(s)

            def exec_module(self, module):
                real.exec_module(module)
                _patch_cachecall(module)
        spec.loader = Loader()
        return spec


if UNDER_XH and 'beartype' not in sys.modules:
    sys.meta_path.insert(0, _Finder())

import beartype  # noqa: E402,F401


REPR_CALLS = [0]      # calls of the (stubbed) object-representation helpers, reset by harnesses


def _stub_text():
    from beartype._util.text import utiltextrepr as m

    def represent_object(obj, max_len=96):
        import bearverif.xh.shim as _s
        _s.REPR_CALLS[0] += 1
        return '<obj>'

    def represent_pith(pith):
        import bearverif.xh.shim as _s
        _s.REPR_CALLS[0] += 1
        return '<pith>'
    for name, f in (('represent_object', represent_object), ('represent_pith', represent_pith)):
        real = getattr(m, name)
        real.__code__ = f.__code__
        real.__defaults__ = f.__defaults__
        real.__kwdefaults__ = None


if STUBS:
    _stub_text()
