"""C03 part B — the real cause finder agrees with the fast path (Engine X harness catalogue)."""
from __future__ import annotations
from .harness import Spec

OI = 'Optional[int]'
LOI = 'List[Optional[int]]'

# (name, hint source, params, build expression, extra preconditions, warm argument tuples)
SHAPES = [
    ('List_int', 'List[int]', [('a', LOI)], 'a', [], ['[1]', '[None]', '[]', '[1, None]']),
    ('Sequence_int_user', 'Sequence[int]', [('a', LOI)], 'uc.USeq(a)', [], ['[1]', '[None]', '[]', '[1, None]']),
    ('TupleVar_int', 'Tuple[int, ...]', [('a', 'Tuple[Optional[int], ...]')], 'a', [], ['(1,)', '(None,)', '()']),
    ('TupleFixed_int_bool', 'Tuple[int, bool]', [('a', 'Tuple[Optional[int], ...]')], 'a', ['len(a) <= 3'],
     ['(1, True)', '(None, True)', '(1,)', '(1, None)', '()']),
    ('Set_int', 'Set[int]', [('a', 'Set[Optional[int]]')], 'a', [], ['{1}', '{None}', 'set()']),
    ('FrozenSet_int', 'FrozenSet[int]', [('a', 'FrozenSet[Optional[int]]')], 'a', [], ['frozenset({1})', 'frozenset({None})', 'frozenset()']),
    ('Dict_int_int_value', 'Dict[int, int]', [('a', 'Dict[int, Optional[int]]')], 'a', [], ['{1: 1}', '{1: None}', '{}']),
    ('Dict_int_int_key', 'Dict[int, int]', [('a', 'Dict[Optional[int], int]')], 'a', [], ['{1: 1}', '{None: 1}', '{}']),
    ('Mapping_int_Listint', 'Mapping[int, List[int]]', [('a', 'Dict[int, List[Optional[int]]]')], 'a',
     ['len(a) <= 2', 'all(len(v) <= 2 for v in a.values())'], ['{1: [1]}', '{1: [None]}', '{}', '{1: []}']),
    ('Mapping_user', 'Mapping[int, int]', [('a', 'Dict[int, Optional[int]]')], 'uc.UMap(a)', [], ['{1: 1}', '{1: None}', '{}']),
    ('Union_bool_Listint', 'Union[bool, List[int]]', [('a', 'Union[int, None, List[Optional[int]]]')], 'a', [],
     ['True', '1', 'None', '[1]', '[None]', '[]']),
    ('Optional_int', 'Optional[int]', [('a', 'Union[int, None, bool, List[int]]')], 'a', [], ['1', 'None', 'True', '[1]']),
    ('Literal_1_2_None', 'Literal[1, 2, None]', [('a', 'Optional[int]')], 'a', [], ['1', '2', '3', 'None']),
    ('Type_int', 'Type[int]', [('k', 'int')], '[int, bool, str, uc.UA, 3, None][k]', ['0 <= k < 6'], ['0', '1', '2', '3', '4', '5']),
    ('Annotated_int_vale', 'Annotated[int, IsEqual[5] | Is[lambda v: v > 7]]', [('a', 'Optional[int]')], 'a', [],
     ['5', '8', '1', 'None']),
    ('Iterable_int_list', 'Iterable[int]', [('a', LOI)], 'a', [], ['[1]', '[None]', '[]', '[1, None]']),
    ('Iterable_int_noncollection', 'Iterable[int]', [('a', LOI)], 'uc.UIterable(a)', [], ['[1]', '[None]', '[]']),
    ('Container_int_user', 'Container[int]', [('a', LOI)], 'uc.UColl(a)', [], ['[1]', '[None]', '[]']),
    ('Collection_int_user', 'Collection[int]', [('a', LOI)], 'uc.UColl(a)', [], ['[1]', '[None]', '[]']),
    ('Reversible_int_seq', 'Reversible[int]', [('a', LOI)], 'uc.USeq(a)', [], ['[1]', '[None]', '[]', '[1, None]']),
    ('Deque_int', 'Deque[int]', [('a', LOI)], 'collections.deque(a)', ['len(a) <= 3'], ['[1]', '[None]', '[]']),
    ('KeysView_int', 'KeysView[int]', [('a', 'Dict[Optional[int], int]')], 'a.keys()', [], ['{1: 1}', '{None: 1}', '{}']),
    ('ValuesView_int', 'ValuesView[int]', [('a', 'Dict[int, Optional[int]]')], 'a.values()', [], ['{1: 1}', '{1: None}', '{}']),
    ('ItemsView_int_int', 'ItemsView[int, int]', [('a', 'Dict[int, Optional[int]]')], 'a.items()', [], ['{1: 1}', '{1: None}', '{}']),
    ('TupleFixed_Iterable_int', 'Tuple[Iterable[int], int]', [('a', LOI), ('b', OI)], '(uc.UIterable(a), b)', [],
     ['[1], 1', '[None], None', '[], None', '[1], None']),
    ('TupleFixed_Iterator_int', 'Tuple[Iterator[int], int]', [('a', LOI), ('b', OI)], '(iter(a), b)', [],
     ['[1], 1', '[None], None', '[], None']),
    ('Union_Iterable_str', 'Union[Iterable[int], str]', [('a', LOI), ('k', 'int')], '[uc.UIterable(a), a, None, 3][k]', ['0 <= k < 4'],
     ['[1], 0', '[None], 1', '[], 2', '[1], 3']),
    ('UGenList_int', 'uc.UGenList[int]', [('a', LOI)], 'uc.UGenList(a)', ['len(a) <= 3'], ['[1]', '[None]', '[]']),
    ('Proto', 'uc.UProto', [('k', 'int')], '[uc.UImpl(), uc.UA(), 3, None][k]', ['0 <= k < 4'], ['0', '1', '2', '3']),
    ('TypeVar_bound', 'TypeVar("TBX", bound=int)', [('a', 'Union[int, None, bool]')], 'a', [], ['1', 'None', 'True']),
    ('NewType_int', 'NewType("NTX", int)', [('a', 'Union[int, None, bool]')], 'a', [], ['1', 'None']),
    ('List_List_int', 'List[List[int]]', [('a', 'List[List[Optional[int]]]')], 'a', ['len(a) <= 3', 'all(len(v) <= 2 for v in a)'],
     ['[[1]]', '[[None]]', '[]', '[[]]', '[[1], [None]]']),
    ('Dict_int_TupleVar', 'Dict[int, Tuple[int, ...]]', [('a', 'Dict[int, Tuple[Optional[int], ...]]')], 'a',
     ['len(a) <= 2', 'all(len(v) <= 2 for v in a.values())'], ['{1: (1,)}', '{1: (None,)}', '{}']),
    ('Union_List_Dict', 'Union[List[int], Dict[int, int]]', [('a', LOI), ('d', 'Dict[int, Optional[int]]'), ('k', 'bool')],
     '(a if k else d)', [], ['[1], {}, True', '[None], {}, True', '[], {1: None}, False', '[], {1: 1}, False']),
    # children all ignorable: the rejection (wrong length / implicit Counter value hint) is not attributable to a child
    ('TupleFixed_Any_object', 'Tuple[Any, object]', [('a', LOI)], 'tuple(a)', ['len(a) <= 3'], ['[1, 2]', '[1]', '[]', '[1, None, 2]']),
    # ignorable and unignorable children side by side: the length the explanation compares against is the number of
    # *positions*, not of checked children
    ('TupleFixed_int_Any', 'Tuple[int, Any]', [('a', LOI)], 'tuple(a)', ['len(a) <= 3'], ['[1, 2]', '[1]', '[]', '[None, 2]', '[1, None, 2]']),
    ('TupleFixed_object_int_Any', 'Tuple[object, int, Any]', [('a', LOI)], 'tuple(a)', ['len(a) <= 4'],
     ['[1, 2, 3]', '[1]', '[1, 2]', '[]', '[None, None, 2]', '[1, 2, 3, 4]']),
    ('List_TupleFixed_Any', 'List[Tuple[Any, Any]]', [('n1', 'int'), ('n2', 'int')],
     '[((), (1,), (1, 2), (1, 2, 3))[n1], ((), (1,), (1, 2), (1, 2, 3))[n2]]', ['0 <= n1 <= 3', '0 <= n2 <= 3'], ['2, 2', '1, 2', '2, 0']),
    ('Union_int_TupleFixed_object', 'Union[int, Tuple[object, object]]', [('a', LOI), ('k', 'bool')], '(tuple(a) if k else 3)', ['len(a) <= 3'],
     ['[1, 2], True', '[1], True', '[], False']),
    ('TupleEmpty', 'Tuple[()]', [('a', LOI)], 'tuple(a)', ['len(a) <= 2'], ['[]', '[1]']),
    ('MutableSequence_int', 'MutableSequence[int]', [('a', LOI)], 'uc.UMutSeq(a)', [], ['[1]', '[None]', '[]']),
    ('AbstractSet_int', 'AbstractSet[int]', [('a', LOI)], 'uc.USet(a)', ['len(a) <= 3'], ['[1]', '[None]', '[]']),
]

CONFS = {
    'default': {},
    'exc': {'violation_type': 'VerifError'},
    'warn': {'violation_type': 'VerifWarning'},
    'mixed': {'violation_door_type': 'VerifWarning', 'violation_param_type': 'VerifError'},
    'retwarn': {'violation_return_type': 'VerifWarning', 'violation_verbosity': 'MINIMAL'},
    'verbose': {'violation_verbosity': 'MAXIMAL', 'is_color': False},
    'minimal': {'violation_verbosity': 'MINIMAL'},
    'nonrandom': {'is_random': False},
    'On': {'strategy': 'On'},
}

QUICK = [('TupleFixed_Any_object', 'default'), ('TupleFixed_int_Any', 'default'), ('TupleFixed_Iterable_int', 'default'), ('List_int', 'default'), ('Dict_int_int_value', 'warn'),
         ('Iterable_int_list', 'default'), ('Optional_int', 'exc'), ('Mapping_int_Listint', 'default'),
         ('TupleFixed_int_bool', 'mixed'), ('Sequence_int_user', 'retwarn'), ('Set_int', 'default'),
         ('Reversible_int_seq', 'nonrandom'), ('KeysView_int', 'default'), ('Annotated_int_vale', 'minimal')]


def make_spec(shape, confname):
    name, hint, params, build, pre, warm = shape
    confkw = CONFS[confname]
    pnames = ', '.join(p for p, _ in params)
    pre = list(pre) + ['0 <= r < 2**32']
    # On walks every item by design; foreign exception / warning classes are built by C-level
    # constructors that realise the (index-bearing) message: both need a finite length to exhaust
    if confname in ('On', 'exc', 'warn', 'mixed', 'retwarn'):
        for p, t in params:
            if t.startswith(('List', 'Tuple', 'Set', 'FrozenSet', 'Dict')):
                pre.append(f'len({p}) <= 3')
    setup = (f'from bearverif.xh.agree import agree, LAST, Entries\n'
             f'H = {hint}\nCONF = make_conf({confkw!r})\nENTRIES = Entries(H, CONF)\n\n\n'
             f'def make({pnames}):\n    return {build}\n')
    body = f'return agree(lambda: make({pnames}), r, H, CONF, entries=ENTRIES)'
    return Spec(f'{name}__{confname}', params + [('r', 'int')], body, setup=setup, pre=pre,
                warm=[f'{w}, 0' for w in warm] + [f'{warm[0]}, 5'], timeout=240)


# combinations that do not exhaust within the cap (measured); they stay covered by part A
EXCLUDE = {('Union_bool_Listint', 'On'), ('Union_bool_Listint', 'mixed'), ('Union_bool_Listint', 'exc'),
           ('Union_bool_Listint', 'warn'), ('Union_bool_Listint', 'retwarn'), ('List_List_int', 'On')}
# shapes removed for the same reason: Counter / DefaultDict / OrderedDict / ChainMap built from a
# symbolic dict (C-level constructors realise every key and value)


def specs(tier, seed=0):
    by = {s[0]: s for s in SHAPES}
    if tier == 'quick':
        return [make_spec(by[n], c) for n, c in QUICK]
    out = []
    confs = list(CONFS)
    for i, s in enumerate(SHAPES):
        chosen = {'default', confs[1 + (i + seed) % (len(confs) - 1)], confs[1 + (i * 3 + 1 + seed) % (len(confs) - 1)]}
        for c in sorted(chosen):
            if (s[0], c) not in EXCLUDE:
                out.append(make_spec(s, c))
    return out
