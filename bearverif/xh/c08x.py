"""C08 (Engine X) -- wrapped coroutines / generators / asynchronous generators behave like the originals.

The *real* decorated callable and the undecorated original are driven by the same scripts:

* an *inner script* -- a short list of symbolic actions the original performs (yield a value, return a
  value, raise a user exception; whether it swallows an exception thrown into it) -- and
* a *driver script* -- a short list of symbolic operations the caller performs on the produced object
  (next / send(v) / throw(E(v)) / close, their asynchronous forms, or stepping an awaited coroutine).

Both runs record what the caller observes after every operation (yielded value, StopIteration value,
raised exception class and arguments) and what the original's body observes (values sent in, exceptions
thrown in, GeneratorExit, finalisation).  CrossHair explores the scripts symbolically (every action
kind, operation kind and payload within the stated bounds); the postcondition is that the two traces
are equal, except that a returned / awaited value violating the return annotation must surface as
the configured return violation.  Coroutines and asynchronous generators are stepped by hand
(``coro.send(None)``), so no event loop is involved.

Bounds: inner script <= 3 actions, driver script <= 3 operations (quick: 2), payloads ints in [-1, 2]
plus one non-int ('s') for returned values.  The scripted original does not yield while handling
GeneratorExit (the property's own proviso).
"""
from __future__ import annotations
from .harness import Spec

SETUP = '''
import functools
import inspect
from beartype.roar import BeartypeCallHintReturnViolation, BeartypeCallHintParamViolation
LAST = ['']


class UserErr(Exception):
    pass


class UserBase(BaseException):
    """Thrown in by the driver too: not an Exception (like CancelledError / KeyboardInterrupt)."""


def val(k):
    """Returned-value menu: small ints, one non-int and None."""
    return 's' if k == 3 else (None if k == 2 else k)


def conforms_ret(v):
    """Does a coroutine result satisfy the return annotation in force (RET)?"""
    if RET == 'optint':
        return v is None or (isinstance(v, int) and not isinstance(v, bool)) or isinstance(v, bool)
    return isinstance(v, int)


class Suspend:
    """Awaitable that suspends once, handing `tag` to whoever steps the coroutine."""
    def __init__(self, tag):
        self.tag = tag

    def __await__(self):
        got = yield ('suspend', self.tag)
        return got


# ---- scripted originals.  script: list of (kind, payload); log: what the body observes
def gen_body(script, log):
    def original(*a, **kw) -> ANN:
        x = a[-1]
        log.append(('start', x))
        try:
            for kind, p in script:
                if kind == 0:                       # yield p, see what is sent / thrown in
                    try:
                        got = yield p
                        log.append(('got', got))
                    except GeneratorExit:
                        log.append(('genexit',))
                        raise
                    except (UserErr, UserBase) as e:
                        log.append(('caught', type(e).__name__, e.args))
                elif kind == 1:                     # return a value
                    return val(p)
                else:                               # raise
                    raise UserErr(p)
            return 7
        finally:
            log.append(('finalised',))
    return original


def agen_body(script, log, cleanup=False):
    async def original(*a, **kw) -> ANN:
        x = a[-1]
        log.append(('start', x))
        try:
            for kind, p in script:
                if kind == 0:
                    try:
                        got = yield p
                        log.append(('got', got))
                    except GeneratorExit:
                        log.append(('genexit',))
                        raise
                    except (UserErr, UserBase) as e:
                        log.append(('caught', type(e).__name__, e.args))
                elif kind == 1:
                    return
                else:
                    raise UserErr(p)
        finally:
            log.append(('finalised',))
            if cleanup:
                # asynchronous clean-up: only an explicit aclose() by whoever holds the generator can run it
                got = await Suspend(9)
                log.append(('cleanup-resumed', got))
    return original


def coro_body(script, log):
    async def original(*a, **kw) -> ANN:
        x = a[-1]
        log.append(('start', x))
        try:
            for kind, p in script:
                if kind == 0:                       # suspend, see what the stepper sends / throws
                    try:
                        got = await Suspend(p)
                        log.append(('got', got))
                    except (UserErr, UserBase) as e:
                        log.append(('caught', type(e).__name__, e.args))
                elif kind == 1:
                    return val(p)
                else:
                    raise UserErr(p)
            return 7
        finally:
            log.append(('finalised',))
    return original


def outcome(thunk):
    try:
        return ('value', thunk())
    except StopIteration as e:
        return ('stop', e.value)
    except StopAsyncIteration:
        return ('astop',)
    except (BeartypeCallHintReturnViolation, VerifError):
        return ('return-violation',)
    except (UserErr, UserBase) as e:
        return ('raise', type(e).__name__, e.args)
    except GeneratorExit:
        return ('raise', 'GeneratorExit')
    except RuntimeError as e:
        return ('raise', 'RuntimeError', str(e)[:40])
    except Exception as e:
        return ('raise', type(e).__name__)


def _unused_step(awaitable):
    """Run an awaitable that never really suspends (asend/athrow/aclose of our scripted generators)."""
    return outcome(lambda: awaitable.send(None)) if hasattr(awaitable, 'send') else outcome(lambda: awaitable.__await__().send(None))


def drive_gen(fn, ops, log):
    obs = []
    g = fn(1)
    obs.append(('kind', type(g).__name__))
    for op, p in ops:
        if op == 0:
            obs.append(outcome(lambda: next(g)))
        elif op == 1:
            obs.append(outcome(lambda: g.send(p)))
        elif op == 2:
            obs.append(outcome(lambda: g.throw(UserErr(p))))
        elif op == 4:
            obs.append(outcome(lambda: g.throw(UserBase(p))))
        elif op == 5:
            obs.append(outcome(lambda: g.throw(GeneratorExit())))     # thrown in explicitly: not the same as close()
        else:
            obs.append(outcome(lambda: g.close()))
        log.append(('after-op', len(obs)))      # interleaving of finalisation with the caller's operations is observable
    obs.append(outcome(lambda: g.close()))
    log.append(('after-final-close',))
    return obs


def _astep(aw):
    """Step an awaitable to completion, recording every suspension it hands out on the way."""
    seen = []
    for _ in range(3):
        try:
            tag = aw.send(None)
        except StopIteration as e:
            return tuple(seen) + (('value', e.value),)
        except StopAsyncIteration:
            return tuple(seen) + (('astop',),)
        except (UserErr, UserBase) as e:
            return tuple(seen) + (('raise', type(e).__name__, e.args),)
        except GeneratorExit:
            return tuple(seen) + (('raise', 'GeneratorExit'),)
        except (BeartypeCallHintReturnViolation, VerifError):
            return tuple(seen) + (('return-violation',),)
        except RuntimeError as e:
            return tuple(seen) + (('raise', 'RuntimeError', str(e)[:40]),)
        except Exception as e:
            return tuple(seen) + (('raise', type(e).__name__),)
        seen.append(('suspended', tag))
    return tuple(seen) + (('still-suspended',),)


def drive_agen(fn, ops, log):
    obs = []
    g = fn(1)
    obs.append(('kind', type(g).__name__))
    for op, p in ops:
        if op == 0:
            obs.append(_astep(g.__anext__()))
        elif op == 1:
            obs.append(_astep(g.asend(p)))
        elif op == 2:
            obs.append(_astep(g.athrow(UserErr(p))))
        elif op == 4:
            obs.append(_astep(g.athrow(UserBase(p))))
        elif op == 5:
            obs.append(_astep(g.athrow(GeneratorExit())))             # thrown in explicitly: not the same as aclose()
        else:
            obs.append(_astep(g.aclose()))
        log.append(('after-op', len(obs)))
    obs.append(_astep(g.aclose()))
    log.append(('after-final-close',))
    return obs


def drive_coro(fn, ops, log):
    obs = []
    c = fn(1)
    obs.append(('kind', type(c).__name__))
    for op, p in ops:
        if op in (0, 1):
            obs.append(outcome(lambda: c.send(None if op == 0 or not obs[1:] else p)))
        elif op == 2:
            obs.append(outcome(lambda: c.throw(UserErr(p))))
        elif op == 4:
            obs.append(outcome(lambda: c.throw(UserBase(p))))
        else:
            obs.append(outcome(lambda: c.close()))
        log.append(('after-op', len(obs)))
    obs.append(outcome(lambda: c.close()))
    log.append(('after-final-close',))
    return obs


def expected(obs_plain, kind):
    """What the decorated run must show: the plain run, except that a coroutine result that is not
    an int surfaces as the return violation (generators' return values are not checked)."""
    out = []
    for o in obs_plain:
        if kind == 'coro' and o[0] == 'stop' and not conforms_ret(o[1]):
            out.append(('return-violation',))
        else:
            out.append(o)
    return out


def compare(kind, script, ops, cleanup=False):
    make, drive = {'gen': (gen_body, drive_gen), 'agen': (agen_body, drive_agen), 'coro': (coro_body, drive_coro)}[kind]
    log_p, log_w = [], []
    if kind == 'agen':
        plain = make(script, log_p, cleanup)
        inner_w = make(script, log_w, cleanup)
    else:
        plain = make(script, log_p)
        inner_w = make(script, log_w)
    if HOST == 'function':
        wrapped = DEC(inner_w)
    elif HOST == 'wraps':
        # the scripted original is itself a functools.wraps(*args, **kwargs) closure around a *plain* function
        # (a generator / coroutine adapter over something else): the kind of the decorated callable counts
        def callee(x: int) -> ANN:
            return None
        plain = functools.wraps(callee)(plain)
        inner_w = functools.wraps(callee)(inner_w)
        wrapped = DEC(inner_w)
    else:
        # the callable is a method (plain / static) of a class that is decorated as a whole
        member = (lambda f: staticmethod(f)) if HOST == 'static' else (lambda f: f)
        PlainHost = type('PlainHost', (), {'m': member(plain)})
        WrapHost = DEC(type('WrapHost', (), {'m': member(inner_w)}))
        plain_f, wrapped_f = plain, WrapHost.__dict__['m']
        wrapped_f = wrapped_f.__func__ if isinstance(wrapped_f, staticmethod) else wrapped_f
        for probe in (inspect.iscoroutinefunction, inspect.isgeneratorfunction, inspect.isasyncgenfunction):
            if probe(plain_f) != probe(wrapped_f):
                LAST[0] = f'{probe.__name__}: original {probe(plain_f)}, decorated method {probe(wrapped_f)}'
                return False
        plain, wrapped = PlainHost().m, WrapHost().m
    for probe in (inspect.iscoroutinefunction, inspect.isgeneratorfunction, inspect.isasyncgenfunction):
        if probe(plain) != probe(wrapped):
            LAST[0] = f'{probe.__name__}: original {probe(plain)}, decorated {probe(wrapped)}'
            return False
    if HOST in ('function', 'wraps') and getattr(wrapped, '__wrapped__', None) is not inner_w:
        LAST[0] = 'decorated callable does not expose the original as __wrapped__'
        return False
    obs_p = drive(plain, ops, log_p)
    obs_w = drive(wrapped, ops, log_w)
    want = expected(obs_p, kind)
    # after a return violation the decorated coroutine is finished: later steps differ by nature
    cut = next((i + 1 for i, o in enumerate(want) if o == ('return-violation',)), len(want))
    if obs_w[:cut] != want[:cut]:
        LAST[0] = f'{kind}: caller observes {obs_w[:cut]} on the decorated callable, {want[:cut]} on the original (script {script}, ops {ops})'
        return False
    if log_w != log_p and cut == len(want):
        LAST[0] = f'{kind}: the body observes {log_w} when decorated, {log_p} when not (script {script}, ops {ops})'
        return False
    LAST[0] = 'ok'
    return True


CONF = make_conf(@CONFKW@)
DEC = beartype(conf=CONF)
ANN = @ANN@
RET = @RET@
HOST = @HOST@
'''


ANNS = {
    'gen': {'generator': 'Generator[int, int, int]', 'iterator': 'Iterator[int]', 'iterable': 'Iterable[int]'},
    'agen': {'generator': 'AsyncGenerator[int, int]', 'iterator': 'AsyncIterator[int]', 'iterable': 'AsyncIterable[int]'},
    'coro': {'int': 'int', 'optint': 'Optional[int]'},
}


def spec(kind, n_script, n_ops, confkw, tag, ann=None, host='function'):
    ann = ann or next(iter(ANNS[kind]))
    params = []
    pre = []
    for i in range(n_script):
        params += [(f'k{i}', 'int'), (f'p{i}', 'int')]
        pre += [f'0 <= k{i} <= 2', f'-1 <= p{i} <= 3']
    for i in range(n_ops):
        params += [(f'o{i}', 'int'), (f'q{i}', 'int')]
        pre += [f'0 <= o{i} <= 5', f'-1 <= q{i} <= 2']
    script = '[' + ', '.join(f'(k{i}, p{i})' for i in range(n_script)) + ']'
    ops = '[' + ', '.join(f'(o{i}, q{i})' for i in range(n_ops)) + ']'
    body = f'return compare({kind!r}, {script}, {ops})'
    if kind == 'agen':
        params.append(('cl', 'bool'))
        body = f'return compare({kind!r}, {script}, {ops}, cl)'
    n = len(params)
    warm = [', '.join(['0'] * n), ', '.join(['1', '3'] + ['0'] * (n - 2)) if n >= 2 else '0',
            ', '.join((['0', '1', '2', '0'] * n)[:n])]
    if kind == 'agen':
        warm = [w.rsplit(', ', 1)[0] + ', ' + b for w, b in zip(warm, ('False', 'True', 'True'))]
    setup = (SETUP.replace('@CONFKW@', repr(confkw)).replace('@ANN@', ANNS[kind][ann])
             .replace('@RET@', repr(ann)).replace('@HOST@', repr(host)))
    return Spec(f'{kind}_{ann}_{host}_{n_script}x{n_ops}__{tag}', params, body, setup=setup, pre=pre, warm=warm,
                timeout=300 if n_script + n_ops <= 4 else 900, stubs=False)


def specs(tier, seed=0):
    out = []
    if tier == 'quick':
        for kind in ('gen', 'agen', 'coro'):
            out.append(spec(kind, 2, 2, {}, 'default'))
        out += [spec('gen', 2, 2, {}, 'default', 'iterator', 'method'), spec('agen', 2, 2, {}, 'default', 'iterator', 'static'),
                spec('coro', 2, 2, {}, 'default', 'optint', 'method'), spec('gen', 2, 2, {}, 'default', 'iterable', 'wraps'),
                spec('coro', 2, 2, {}, 'default', 'int', 'wraps')]
        return out
    for kind in ('gen', 'agen', 'coro'):
        out.append(spec(kind, 3, 2, {}, 'default'))
        out.append(spec(kind, 2, 3, {}, 'default'))
        out.append(spec(kind, 2, 2, {'is_random': False}, 'nonrandom'))
        out.append(spec(kind, 2, 2, {'violation_type': 'VerifError'}, 'exc'))
        for ann in ANNS[kind]:
            for host in ('function', 'method', 'static', 'wraps'):
                out.append(spec(kind, 2, 2, {}, 'default', ann, host))
    return out
