"""C09 / C10 (Engine X parts): cost and effect of the *error path* on instrumented containers.

Spy containers (pure-Python Sequence / Mapping / Set / Collection / non-collection iterable /
one-shot iterators from bearverif.userclasses, which record every item-reading call) wrap symbolic
data of unbounded length; the real ``die_if_unbearable`` and a decorated callable run on accepting
and rejecting inputs.
"""
from __future__ import annotations
from .harness import Spec

LOI = 'List[Optional[int]]'

SETUP = '''
import bearverif.xh.shim as shim
from beartype.roar import BeartypeCallHintViolation
LAST = ['']
H = {hint}
CONF = make_conf({confkw!r})
K = {k}


def fdec(p):
    return None
fdec.__annotations__ = {{'p': H}}
DEC = beartype(conf=CONF)(fdec)


def make({pnames}):
    return {build}


def run_checks(x):
    """die_if_unbearable and the decorated parameter check; returns 'accept' / 'reject' / problem."""
    out = []
    for label, fn in (('door', lambda: die_if_unbearable(x, H, conf=CONF)), ('param', lambda: DEC(x))):
        try:
            fn()
            out.append('accept')
        except BeartypeCallHintViolation:
            out.append('reject')
        except Exception as e:
            return f'{{label}} raised {{type(e).__name__}}: {{str(e)[:120]}}'
    return out
'''

# name, hint, params, build, K(H) (reads the hint allows per check), pre
COST_SHAPES = [
    ('Sequence_int', 'Sequence[int]', [('a', LOI)], 'uc.USeq(a)', 1, []),
    ('MutableSequence_int', 'MutableSequence[int]', [('a', LOI)], 'uc.UMutSeq(a)', 1, []),
    ('Collection_int', 'Collection[int]', [('a', LOI)], 'uc.UColl(a)', 1, []),
    ('AbstractSet_int', 'AbstractSet[int]', [('a', LOI)], 'uc.USet(a)', 1, ['len(a) <= 3']),
    ('Mapping_int_int', 'Mapping[int, int]', [('a', 'Dict[int, Optional[int]]')], 'uc.UMap(a)', 2, []),
    ('Mapping_key', 'Mapping[int, int]', [('a', 'Dict[Optional[int], int]')], 'uc.UMap(a)', 2, []),
    ('Iterable_seq', 'Iterable[int]', [('a', LOI)], 'uc.USeq(a)', 1, []),
    ('Iterable_noncollection', 'Iterable[int]', [('a', LOI)], 'uc.UIterable(a)', 0, []),
    ('Reversible_noncollection', 'Reversible[int]', [('a', LOI)], 'uc.UReversible(a)', 0, []),
    ('Container_coll', 'Container[int]', [('a', LOI)], 'uc.UColl(a)', 1, []),
    ('Union_seq_map', 'Union[Sequence[int], Mapping[int, int]]', [('a', LOI), ('d', 'Dict[int, Optional[int]]'), ('k', 'bool')],
     '(uc.USeq(a) if k else uc.UMap(d))', 3, []),
    ('Tuple_seq_map', 'Tuple[Sequence[int], Mapping[int, int]]', [('a', LOI), ('d', 'Dict[int, Optional[int]]')],
     '(uc.USeq(a), uc.UMap(d))', 3, []),
    # a conforming container next to the culprit: the explanation visits the sibling too
    ('Tuple_seq_int', 'Tuple[Sequence[int], int]', [('a', LOI), ('b', 'Optional[int]')], '(uc.USeq(a), b)', 1, []),
    # a mapping whose *value* hint is ignorable, next to the culprit
    ('Tuple_mapAny_int', 'Tuple[Mapping[int, Any], int]', [('d', 'Dict[int, Optional[int]]'), ('b', 'Optional[int]')], '(uc.UMap(d), b)', 2, []),
    ('Tuple_mapKeyAny_int', 'Tuple[Mapping[Any, int], int]', [('d', 'Dict[int, int]'), ('b', 'Optional[int]')], '(uc.UMap(d), b)', 2, []),
    ('Tuple_int_map', 'Tuple[int, Mapping[int, int]]', [('b', 'Optional[int]'), ('d', 'Dict[int, Optional[int]]')], '(b, uc.UMap(d))', 2, []),
    ('Seq_Seq_int', 'Sequence[Sequence[int]]', [('a', 'List[List[Optional[int]]]')], 'uc.USeq([uc.USeq(v) for v in a])', 2,
     ['len(a) <= 3', 'all(len(v) <= 2 for v in a)']),
]
WARM = {'Dict[int, int]': ['{1: 1}', '{}', '{1: 2, 3: 4}'], 'Optional[int]': ['1', 'None'], LOI: ['[1]', '[None]', '[]', '[1, None]'], 'Dict[int, Optional[int]]': ['{1: 1}', '{1: None}', '{}'],
        'Dict[Optional[int], int]': ['{1: 1}', '{None: 1}', '{}'], 'bool': ['True', 'False'],
        'List[List[Optional[int]]]': ['[[1]]', '[[None]]', '[]']}


def _warm(params):
    import itertools
    cols = [WARM[t] for _p, t in params]
    n = max(len(c) for c in cols)
    return [', '.join(c[i % len(c)] for c in cols) + ', 0' for i in range(n)] + [', '.join(c[0] for c in cols) + ', 5']


def cost_spec(shape, confkw, tag):
    name, hint, params, build, k, pre = shape
    pnames = ', '.join(p for p, _ in params)
    setup = SETUP.format(hint=hint, confkw=confkw, k=k, pnames=pnames, build=build)
    # per check: the fast path may read K items, describing a rejection re-reads the same items;
    # two entry points are exercised => 2 * (2K); +0 slack.  Object representations: a constant per
    # rejection (measured on the unchanged tree: 4 helper calls (5 for mappings), 2 of them on the rejected object --
    # message and culprits), independent of the container's size.
    body = (f'x = make({pnames})\nuc.READS.clear()\nshim.REPR_CALLS[0] = 0\nPIN.value = r\n'
            f'try:\n    res = run_checks(x)\nfinally:\n    PIN.value = None\n'
            f'if isinstance(res, str):\n    LAST[0] = res\n    return False\n'
            f'reads = len(uc.READS)\nrejects = res.count("reject")\n'
            f'if reads > K * (len(res) + rejects):\n'
            f'    LAST[0] = "%d container reads for 2 checks (%d rejected), the hint allows %d per check and as many again per explanation" % (reads, rejects, K)\n    return False\n'
            f'if K == 0 and reads:\n    LAST[0] = "a non-collection iterable was read"\n    return False\n'
            f'if shim.REPR_CALLS[0] > 6 * rejects:\n'
            f'    LAST[0] = "%d object representations for %d rejections" % (shim.REPR_CALLS[0], rejects)\n    return False\n'
            f'LAST[0] = "ok"\nreturn True')
    return Spec(f'{name}__{tag}', params + [('r', 'int')], body, setup=setup, pre=list(pre) + ['0 <= r < 2**32'],
                warm=_warm(params), timeout=200)


def specs_c09(tier, seed=0):
    out = []
    byname = {s[0]: s for s in COST_SHAPES}
    if tier == 'quick':
        return [cost_spec(byname['Sequence_int'], {}, 'default'), cost_spec(byname['Mapping_int_int'], {}, 'default'),
                cost_spec(byname['Iterable_noncollection'], {}, 'default'),
                cost_spec(byname['Tuple_seq_int'], {'is_random': False}, 'nonrandom'),
                cost_spec(byname['Tuple_mapAny_int'], {}, 'default')]
    for s in COST_SHAPES:
        out.append(cost_spec(s, {}, 'default'))
        out.append(cost_spec(s, {'is_random': False}, 'nonrandom'))
    return out


# --------------------------------------------------------------------------- C10: effects

EFFECT_SHAPES = [
    # name, hint, params, build, snapshot expression, pre
    ('Iterable_oneshot', 'Iterable[int]', [('a', LOI)], 'uc.UIterator(a)', 'x._k', []),
    ('Iterator_oneshot', 'Iterator[int]', [('a', LOI)], 'uc.UIterator(a)', 'x._k', []),
    ('Iterable_sized_oneshot', 'Iterable[int]', [('a', LOI)], 'uc.USizedIterator(a)', 'x._k', []),
    ('Tuple_Iterator_int', 'Tuple[Iterator[int], int]', [('a', LOI), ('b', 'Optional[int]')], '(uc.UIterator(a), b)', 'x[0]._k', []),
    # a conforming one-shot iterable *beside* the culprit: the explanation walks past it on its way to the failing item
    ('Tuple_Iterable_oneshot_int', 'Tuple[Iterable[int], int]', [('a', LOI), ('b', 'Optional[int]')], '(uc.UIterator(a), b)', 'x[0]._k', []),
    ('Union_Iterator_str', 'Union[Iterator[int], str]', [('a', LOI)], 'uc.UIterator(a)', 'x._k', []),
    ('List_Iterable', 'List[Iterable[int]]', [('a', LOI)], '[uc.UIterator(a)]', 'x[0]._k', []),
    ('Sequence_user_contents', 'Sequence[int]', [('a', LOI)], 'uc.USeq(a)', 'len(x._i)', []),
    # spies whose __bool__ (and other special methods outside the read-only protocol) are recorded
    ('Mapping_user_foreign', 'Mapping[int, int]', [('d', 'Dict[int, Optional[int]]')], 'uc.UMap(d)', 'len(x._d)', []),
    ('Tuple_map_int_foreign', 'Tuple[Mapping[int, int], int]', [('d', 'Dict[int, Optional[int]]'), ('b', 'Optional[int]')], '(uc.UMap(d), b)', 'len(x[0]._d)', []),
    ('Tuple_seq_int_foreign', 'Tuple[Sequence[int], int]', [('a', LOI), ('b', 'Optional[int]')], '(uc.USeq(a), b)', 'len(x[0]._i)', []),
    ('Collection_user_foreign', 'Collection[int]', [('a', LOI)], 'uc.UColl(a)', 'len(x._i)', []),
]


def effect_spec(shape, confkw, tag):
    name, hint, params, build, snap, pre = shape
    pnames = ', '.join(p for p, _ in params)
    setup = SETUP.format(hint=hint, confkw=confkw, k=0, pnames=pnames, build=build)
    setup += ('\n\ndef fret(v):\n    return v\nfret.__annotations__ = {"return": H}\nDECRET = beartype(conf=CONF)(fret)\n'
              'SEEN = []\n\n\ndef frec(p):\n    SEEN.append(p)\n    return None\nfrec.__annotations__ = {"p": H}\nDECREC = beartype(conf=CONF)(frec)\n')
    body = (f'x = make({pnames})\nbefore = {snap}\ndel uc.FOREIGN[:]\nPIN.value = r\n'
            f'try:\n    res = run_checks(x)\n'
            f'    try:\n        DECRET(x)\n    except BeartypeCallHintViolation:\n        pass\n'
            f'    del SEEN[:]\n'
            f'    try:\n        DECREC(x)\n        passed = True\n    except BeartypeCallHintViolation:\n        passed = False\n'
            f'finally:\n    PIN.value = None\n'
            f'if isinstance(res, str):\n    LAST[0] = res\n    return False\n'
            f'after = {snap}\n'
            f'if before != after:\n    LAST[0] = "the check changed its subject: %r -> %r" % (before, after)\n    return False\n'
            f'if uc.FOREIGN:\n    LAST[0] = "the check ran user code outside the read-only protocol: %r" % (uc.FOREIGN[:4],)\n    return False\n'
            f'if passed and not (len(SEEN) == 1 and SEEN[0] is x):\n    LAST[0] = "the wrapped callable did not receive the identical argument"\n    return False\n'
            f'LAST[0] = "ok"\nreturn True')
    return Spec(f'{name}__{tag}', params + [('r', 'int')], body, setup=setup, pre=list(pre) + ['0 <= r < 2**32'],
                warm=_warm(params), timeout=200)


WARM['Optional[int]'] = ['1', 'None']


def specs_c10(tier, seed=0):
    shapes = EFFECT_SHAPES if tier != 'quick' else [EFFECT_SHAPES[i] for i in (0, 3, 4, 6, 9)]
    out = [effect_spec(s, {}, 'default') for s in shapes]
    if tier != 'quick':
        out += [effect_spec(s, {'violation_type': 'VerifWarning'}, 'warn') for s in EFFECT_SHAPES[:6]]
    return out
