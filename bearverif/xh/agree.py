"""The agreement postcondition of C03 (part B), evaluated on the real API.

agree(x_factory, r, hint, conf, conf_kw) returns True iff, for the object and the pinned draw,

* is_bearable, die_if_unbearable, TypeHint.is_bearable / die_if_unbearable and the parameter and
  return checks of a decorated callable reach the same verdict;
* every rejection is exactly the configured violation class (door / param / return), or -- for a
  configured Warning class -- a warning of that class with the call proceeding;
* the violation's message names the hint and its culprits begin with the rejected object (or,
  for objects that cannot be weakly referenced, its truncated repr -- the documented fallback);
* nothing else escapes (no desynchronisation error, TypeError, AttributeError, ...).

LAST holds a human-readable reason for the most recent False (used by concrete replays).
"""
from __future__ import annotations
import warnings

from bearverif.drawpin import PIN

LAST = ['']


def expected_classes(conf):
    return conf.violation_door_type, conf.violation_param_type, conf.violation_return_type


def _run(fn, cls_expected, x, hint_repr, label):
    """Run one raising entry point.  Returns ('accept'|'reject', problem or None)."""
    is_warn = issubclass(cls_expected, Warning)
    with warnings.catch_warnings(record=True) as ws:
        warnings.simplefilter('always')
        try:
            fn()
            exc = None
        except Exception as e:          # CrossHair steers with BaseExceptions: never catch those
            exc = e
    if exc is not None:
        if is_warn:
            return 'reject', f'{label}: raised {type(exc).__name__} although {cls_expected.__name__} is a Warning'
        if type(exc) is not cls_expected:
            return 'reject', f'{label}: raised {type(exc).__name__}: {str(exc)[:200]} instead of {cls_expected.__name__}'
        prob = _explained(exc, x, hint_repr, label)
        return 'reject', prob
    if is_warn:
        mine = [w for w in ws if w.category is cls_expected]
        if mine:
            if hint_repr not in str(mine[0].message):
                return 'reject', f'{label}: warning message does not name the hint'
            return 'reject', None
        return 'accept', None
    return 'accept', None


def _explained(exc, x, hint_repr, label):
    msg = str(exc)
    if hint_repr not in msg:
        return f'{label}: message does not name the hint {hint_repr}: {msg[:160]}'
    from beartype.roar import BeartypeCallHintViolation
    if not isinstance(exc, BeartypeCallHintViolation):
        return None                 # a configured foreign exception class carries no culprits
    culprits = exc.culprits
    if not culprits:
        return f'{label}: violation has no culprits'
    c0 = culprits[0]
    if c0 is x:
        return None
    try:
        import weakref
        weakref.ref(x)
        weakable = True
    except TypeError:
        weakable = False
    if weakable:
        return f'{label}: culprits[0] is not the rejected object'
    if not isinstance(c0, str):
        return f'{label}: culprits[0] is neither the object nor its repr'
    return None


class Entries:
    """The six entry points for one (hint, conf), built once, outside the traced region."""

    def __init__(self, hint, conf):
        from beartype import beartype
        from beartype.door import TypeHint
        self.hint, self.conf = hint, conf
        self.hint_repr = repr(hint)
        self.th = TypeHint(hint)

        def fp(p):
            return None
        fp.__annotations__ = {'p': hint}
        self.dp = beartype(conf=conf)(fp)

        def fr(v):
            return v
        fr.__annotations__ = {'return': hint}
        self.dr = beartype(conf=conf)(fr)


def agree(make_x, r, hint, conf, hint_repr=None, entries=None):
    """make_x() builds a fresh copy of the (possibly one-shot) object."""
    from beartype.door import is_bearable, die_if_unbearable
    E = entries if entries is not None else Entries(hint, conf)
    hint_repr = hint_repr if hint_repr is not None else E.hint_repr
    door_cls, param_cls, return_cls = expected_classes(conf)
    PIN.value = r
    try:
        verdicts = {}
        x = make_x()
        try:
            verdicts['is_bearable'] = 'accept' if is_bearable(x, hint, conf=conf) else 'reject'
        except Exception as e:
            LAST[0] = f'is_bearable raised {type(e).__name__}: {str(e)[:200]}'
            return False
        x = make_x()
        try:
            verdicts['TypeHint.is_bearable'] = 'accept' if E.th.is_bearable(x, conf=conf) else 'reject'
        except Exception as e:
            LAST[0] = f'TypeHint.is_bearable raised {type(e).__name__}: {str(e)[:200]}'
            return False
        steps = [
            ('die_if_unbearable', lambda x: (lambda: die_if_unbearable(x, hint, conf=conf)), door_cls),
            ('TypeHint.die_if_unbearable', lambda x: (lambda: E.th.die_if_unbearable(x, conf=conf)), door_cls),
            ('param', lambda x: (lambda: E.dp(x)), param_cls),
            ('return', lambda x: (lambda: E.dr(x)), return_cls),
        ]
        for label, mk, cls in steps:
            x = make_x()
            v, prob = _run(mk(x), cls, x, hint_repr, label)
            if prob:
                LAST[0] = prob
                return False
            verdicts[label] = v
        if len(set(verdicts.values())) != 1:
            LAST[0] = f'entry points disagree: {verdicts}'
            return False
        LAST[0] = f'all {verdicts["is_bearable"]}'
        return True
    finally:
        PIN.value = None
