"""Evidence writer (schema: /root/.vp/EVIDENCE.schema.json)."""
from __future__ import annotations
import hashlib
import inspect
import json
import os

ROOT = os.path.dirname(os.path.dirname(os.path.abspath(__file__)))


def source_hashes(dotted_names):
    """SHA-1 of the current source of the beartype functions/modules an encoding depends on."""
    import importlib
    out = {}
    for dn in dotted_names:
        try:
            if ':' in dn:
                modn, attr = dn.split(':')
                obj = importlib.import_module(modn)
                for a in attr.split('.'):
                    obj = getattr(obj, a)
                obj = inspect.unwrap(obj) if callable(obj) else obj
            else:
                obj = importlib.import_module(dn)
            src = inspect.getsource(obj)
            out[dn] = hashlib.sha1(src.encode()).hexdigest()[:12]
        except Exception as e:
            out[dn] = f'unavailable ({type(e).__name__})'
    return out


def write(prop, tier, seed, level, coverage, assumptions, wall_s, violations):
    # evidence describes checks of /repo itself; a run against a scratch copy (VERIF_REPO, used for
    # seeded changes and trial fixes) must not overwrite it
    evdir = os.path.join(ROOT, 'evidence')
    if os.path.realpath(os.environ.get('VERIF_REPO', '/repo')) != '/repo' or os.environ.get('VERIF_ONLY') or os.environ.get('VERIF_PARTIAL'):
        evdir = os.path.join(ROOT, 'build', 'evidence_scratch')
    os.makedirs(evdir, exist_ok=True)
    doc = {
        'property_id': prop, 'tier': tier, 'seed': int(seed), 'level': level,
        'coverage': coverage, 'assumptions': assumptions, 'wall_s': round(float(wall_s), 2),
        'violations': int(violations),
    }
    path = os.path.join(evdir, f'{prop}.json')
    tmp = path + '.tmp'
    with open(tmp, 'w') as f:
        json.dump(doc, f, indent=1, default=str)
    os.replace(tmp, path)
    return path


def load_known():
    p = os.path.join(ROOT, 'known_findings.json')
    if not os.path.exists(p):
        return []
    return json.load(open(p)).get('findings', [])


def match_known(prop, finding, known=None):
    """Return the listed known finding matching this violation, or None.  Only entries with
    status 'known' suppress; 'fixed' entries suppress nothing."""
    import re
    known = load_known() if known is None else known
    blob = json.dumps(finding, sort_keys=True, default=str)
    for k in known:
        if k.get('property') != prop or k.get('status') != 'known':
            continue
        if all(re.search(rx, str(finding.get(field, '')) if field != '*' else blob)
               for field, rx in k.get('match', {}).items()):
            return k
    return None
