"""User-defined classes that are part of the symbolic object universe.

They live in an importable module so that replay subprocesses can rebuild the
very same classes.  Every container class records the reads performed on it
(used by the C09/C10 replays); recording does not change behaviour.
"""
from __future__ import annotations
import collections.abc as cabc
import enum
import typing
from typing import Dict, Generic, List, TypeVar, Protocol, runtime_checkable

T = TypeVar('T')
KT = TypeVar('KT')
VT = TypeVar('VT')

READS: list = []          # (class name, method) appended on every item-reading call


class UA:                 # plain user class
    def __init__(self, n=0):
        self.n = n

    def __repr__(self):
        return f'UA({self.n})'


class UB(UA):             # subclass of UA
    def __repr__(self):
        return f'UB({self.n})'


class UC:                 # unrelated to UA
    def __repr__(self):
        return 'UC()'


class UH:                 # object with an attribute holder (IsAttr targets)
    def __init__(self, **kw):
        self.__dict__.update(kw)

    def __repr__(self):
        return f'UH({self.__dict__!r})'


@runtime_checkable
class UProto(Protocol):
    def meth(self) -> int: ...


class UImpl:              # structurally implements UProto, no inheritance
    def meth(self) -> int:
        return 1

    def __repr__(self):
        return 'UImpl()'


FOREIGN: list = []        # special methods outside the read-only protocol that something invoked on a spy


class _Rec:
    def _r(self, what):
        READS.append((type(self).__name__, what))

    def __bool__(self):
        # same answer as the default (len() != 0), but *observable*: a check has no business asking
        FOREIGN.append((type(self).__name__, '__bool__'))
        return len(self) != 0

    def _it(self, src):
        """Iterate ``src`` recording one read per item handed out (a full walk costs len reads)."""
        for v in src:
            self._r('__next__')
            yield v


class USeq(_Rec, cabc.Sequence):
    def __init__(self, items=()):
        self._i = items if type(items) is list or isinstance(items, list) else list(items)

    def __len__(self):
        return len(self._i)

    def __getitem__(self, k):
        self._r('__getitem__')
        return self._i[k]

    def __iter__(self):
        return self._it(self._i)

    def __repr__(self):
        return f'USeq({self._i!r})'


class UMutSeq(_Rec, cabc.MutableSequence):
    def __init__(self, items=()):
        self._i = items if type(items) is list or isinstance(items, list) else list(items)

    def __len__(self):
        return len(self._i)

    def __getitem__(self, k):
        self._r('__getitem__')
        return self._i[k]

    def __setitem__(self, k, v):
        self._r('__setitem__')
        self._i[k] = v

    def __delitem__(self, k):
        self._r('__delitem__')
        del self._i[k]

    def insert(self, k, v):
        self._r('insert')
        self._i.insert(k, v)

    def __iter__(self):
        return self._it(self._i)

    def __repr__(self):
        return f'UMutSeq({self._i!r})'


class USet(_Rec, cabc.Set):
    def __init__(self, items=()):
        self._i = items if isinstance(items, list) else list(dict.fromkeys(items))

    def __len__(self):
        return len(self._i)

    def __contains__(self, x):
        self._r('__contains__')
        return x in self._i

    def __iter__(self):
        return self._it(self._i)

    def __repr__(self):
        return f'USet({self._i!r})'


class UColl(_Rec, cabc.Collection):
    """A Collection that is neither Sequence, Set nor Mapping."""

    def __init__(self, items=()):
        self._i = items if type(items) is list or isinstance(items, list) else list(items)

    def __len__(self):
        return len(self._i)

    def __contains__(self, x):
        self._r('__contains__')
        return x in self._i

    def __iter__(self):
        return self._it(self._i)

    def __repr__(self):
        return f'UColl({self._i!r})'


class UMap(_Rec, cabc.Mapping):
    def __init__(self, pairs=()):
        self._d = pairs if isinstance(pairs, dict) else dict(pairs)

    def __len__(self):
        return len(self._d)

    def __getitem__(self, k):
        self._r('__getitem__')
        return self._d[k]

    def __iter__(self):
        return self._it(self._d)

    def __repr__(self):
        return f'UMap({self._d!r})'


class UPatchSeq(cabc.Sequence):
    """A read-only Sequence by inheritance that nevertheless defines the three abstract mutators of
    MutableSequence (item assignment / deletion / insert) without being one."""

    def __init__(self, items=()):
        self._i = items if type(items) is list or isinstance(items, list) else list(items)

    def __len__(self):
        return len(self._i)

    def __getitem__(self, k):
        return self._i[k]

    def __setitem__(self, k, v):
        self._i[k] = v

    def __delitem__(self, k):
        del self._i[k]

    def insert(self, k, v):
        self._i.insert(k, v)

    def __repr__(self):
        return f'UPatchSeq({self._i!r})'


class UPatchMap(cabc.Mapping):
    """A Mapping by inheritance defining __ne__ and the two abstract mutators of MutableMapping."""

    def __init__(self, pairs=()):
        self._d = pairs if isinstance(pairs, dict) else dict(pairs)

    def __len__(self):
        return len(self._d)

    def __getitem__(self, k):
        return self._d[k]

    def __iter__(self):
        return iter(self._d)

    def __ne__(self, other):
        return not (self == other)

    def __setitem__(self, k, v):
        self._d[k] = v

    def __delitem__(self, k):
        del self._d[k]

    def __repr__(self):
        return f'UPatchMap({self._d!r})'


class UIterable:
    """Iterable that is *not* a Collection (no __len__/__contains__); counts iteration."""

    def __init__(self, items=()):
        self._i = items if type(items) is list or isinstance(items, list) else list(items)
        self.iters = 0

    def __iter__(self):
        self.iters += 1
        READS.append(('UIterable', '__iter__'))
        return iter(self._i)

    def __repr__(self):
        return f'UIterable({self._i!r})'


class UIterator:
    """One-shot iterator; counts __next__."""

    def __init__(self, items=()):
        self._i = items if type(items) is list or isinstance(items, list) else list(items)
        self._k = 0
        self.nexts = 0

    def __iter__(self):
        return self

    def __next__(self):
        self.nexts += 1
        READS.append(('UIterator', '__next__'))
        if self._k >= len(self._i):
            raise StopIteration
        self._k += 1
        return self._i[self._k - 1]

    def __repr__(self):
        return f'UIterator({self._i!r}@{self._k})'


class USizedIterator:
    """One-shot iterator that also knows its remaining length (like a DataLoader iterator):
    __len__ + __iter__ (returning self) + __next__, but no __contains__ -- Sized and Iterator,
    not a Collection."""

    def __init__(self, items=()):
        self._i = items if type(items) is list or isinstance(items, list) else list(items)
        self._k = 0

    def __len__(self):
        return len(self._i) - self._k

    def __iter__(self):
        return self

    def __next__(self):
        READS.append(('USizedIterator', '__next__'))
        if self._k >= len(self._i):
            raise StopIteration
        self._k += 1
        return self._i[self._k - 1]

    def __repr__(self):
        return f'USizedIterator({self._i!r}@{self._k})'


class UContainer:
    """Only __contains__."""

    def __init__(self, items=()):
        self._i = items if type(items) is list or isinstance(items, list) else list(items)

    def __contains__(self, x):
        READS.append(('UContainer', '__contains__'))
        return x in self._i

    def __repr__(self):
        return f'UContainer({self._i!r})'


class UReversible:
    """__iter__ + __reversed__, not a Collection."""

    def __init__(self, items=()):
        self._i = items if type(items) is list or isinstance(items, list) else list(items)

    def __iter__(self):
        READS.append(('UReversible', '__iter__'))
        return iter(self._i)

    def __reversed__(self):
        READS.append(('UReversible', '__reversed__'))
        return reversed(self._i)

    def __repr__(self):
        return f'UReversible({self._i!r})'


class UGenList(List[T]):
    """User generic subclassing list: UGenList[int] means 'a UGenList whose items are ints'."""

    def __repr__(self):
        return f'UGenList({list.__repr__(self)})'


class UGenList2(List[T]):
    """A second user generic subclassing list (distinguishable from UGenList)."""

    def __repr__(self):
        return f'UGenList2({list.__repr__(self)})'


class UTagged(UGenList[str], Generic[T]):
    """Re-uses the type variable of its (already subscripted) generic base for something else:
    UTagged[int] is still a list of *str* -- the binding T=int of the outer level must not leak
    into the List[T] of UGenList."""

    def __repr__(self):
        return f'UTagged({list.__repr__(self)})'


class UIntList(List[int]):
    """Non-parameterised user class over a parameterised container: its items must be ints."""

    def __repr__(self):
        return f'UIntList({list.__repr__(self)})'


class UGenDict(Dict[KT, VT]):
    """User generic subclassing dict with two type parameters."""

    def __repr__(self):
        return f'UGenDict({dict.__repr__(self)})'


class UGenPlain(Generic[T]):
    """User generic with no checkable pseudo-superclass."""

    def __repr__(self):
        return 'UGenPlain()'


class EColor(enum.Enum):
    R = 'r'
    G = 'g'


class ENum(enum.IntEnum):
    ONE = 1
    TWO = 2


def ufunc(*a, **k):       # a callable object of the universe
    return None


# --------------------------------------------------------------------------- counting stand-ins for builtin containers
# (C09 replays only: a builtin dict / list cannot be instrumented, an exact subclass that counts every item it hands
# out can -- isinstance() checks and the generated code take the same path for it)

class _CountIter:
    def __init__(self, it, who):
        self._it, self._who = it, who

    def __iter__(self):
        return self

    def __next__(self):
        v = next(self._it)
        READS.append((self._who, '__next__'))
        return v


class _CountView:
    def __init__(self, view, who):
        self._v, self._who = view, who

    def __iter__(self):
        return _CountIter(iter(self._v), self._who)

    def __len__(self):
        return len(self._v)

    def __contains__(self, k):
        return k in self._v


class CDict(dict):
    def __iter__(self):
        return _CountIter(dict.__iter__(self), 'CDict')

    def keys(self):
        return _CountView(dict.keys(self), 'CDict.keys')

    def values(self):
        return _CountView(dict.values(self), 'CDict.values')

    def items(self):
        return _CountView(dict.items(self), 'CDict.items')

    def __getitem__(self, k):
        READS.append(('CDict', '__getitem__'))
        return dict.__getitem__(self, k)


class CList(list):
    def __iter__(self):
        return _CountIter(list.__iter__(self), 'CList')

    def __getitem__(self, i):
        READS.append(('CList', '__getitem__'))
        return list.__getitem__(self, i)


def counting(obj):
    """obj with every exact builtin dict / list (recursively, through dict values, list and tuple items) replaced by a
    counting subclass instance."""
    if type(obj) is dict:
        return CDict((k, counting(v)) for k, v in obj.items())
    if type(obj) is list:
        return CList(counting(v) for v in obj)
    if type(obj) is tuple:
        return tuple(counting(v) for v in obj)
    return obj


def enlarged(obj, n=40):
    """A bigger object of the same shape: every exact builtin dict / list reachable through dict values, list and tuple
    items is padded to n entries with copies of its first entry (fresh keys of the first key's type), so that whatever
    verdict the small object gets for reasons of *shape* the big one gets too -- and a cost that grows with size shows."""
    if type(obj) is dict and obj:
        k0 = next(iter(obj))
        v0 = obj[k0]
        out = {k: enlarged(v, n) for k, v in obj.items()}
        mk = {int: lambda i: 100000 + i, str: lambda i: 'k%d' % i, bytes: lambda i: b'k%d' % i,
              float: lambda i: 100000.5 + i}.get(type(k0))
        if mk is not None:
            i = 0
            while len(out) < n:
                out.setdefault(mk(i), enlarged(v0, n))
                i += 1
        return out
    if type(obj) is list and obj:
        out = [enlarged(v, n) for v in obj]
        while len(out) < n:
            out.append(enlarged(obj[0], n))
        return out
    if type(obj) is tuple:
        return tuple(enlarged(v, n) for v in obj)
    return obj
