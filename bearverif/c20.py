"""C20 — an inferred hint always accepts the object it was inferred from (Engine G; partial).

Enumerated: object skeletons (trees of universe classes, depth <= 3, width <= 3).  For each a
concrete representative is built, the *real* ``infer_hint`` produces H, the code beartype
generates for H is captured, and the solver decides

    for all x of the skeleton's shape (same class tree and lengths, every scalar payload free),
    for all draws r:     code_H(x, r)   and   [[H]](x)

so acceptance is shown for every draw and payload, which a single ``is_bearable`` call cannot show.
"""
from __future__ import annotations
import itertools
import time
import traceback
import typing
import z3

from . import refsem, universe
from . import userclasses as uc
from .core import generate, Encoding, Discharger, PROGRAMS, write_replay
from .engine_g import CaseOut
from .universe import Universe, Unsupported, KIND

LEAVES = [{'c': 'int', 'v': 1}, {'c': 'str', 'v': 'a'}, {'c': 'type', 'denotes': 'str'}, {'c': 'type', 'denotes': 'int'},
          {'c': 'NoneType'}, {'c': 'UA'}, {'c': 'float', 'v': '3/2'}, {'c': 'bool', 'v': 1}, {'c': 'bytes', 'v': 'a'}, {'c': 'UC'}, {'c': 'EColor', 'm': 0},
          {'c': 'ENum', 'm': 0}, {'c': 'function'}, {'c': 'complex', 'v': '1'},
          {'c': 'object'}, {'c': 'UImpl'}]
SEQS = ['list', 'tuple', 'deque', 'USeq', 'UMutSeq', 'UPatchSeq', 'UGenList', 'range']
COLLS = ['set', 'frozenset', 'USet', 'UColl', 'dict_keys', 'dict_values', 'UIterable', 'UReversible']
MAPS = ['dict', 'defaultdict', 'OrderedDict', 'Counter', 'ChainMap', 'UMap', 'UPatchMap', 'dict_items']
ITER1 = ['list_iterator', 'generator', 'UIterator', 'USizedIterator']
# numeric leaves that compare (and hash) equal across types; their payload is *pinned* in the shape
# (equality between siblings is what they are for), the draw stays free
ONES = [{'c': 'int', 'v': 1, 'pin': 1}, {'c': 'float', 'v': '1', 'pin': 1}, {'c': 'bool', 'v': 1, 'pin': 1},
        {'c': 'complex', 'v': '1', 'pin': 1}, {'c': 'ENum', 'm': 0, 'pin': 1}]
ZEROS = [{'c': 'int', 'v': 0, 'pin': 1}, {'c': 'float', 'v': '0', 'pin': 1}, {'c': 'bool', 'v': 0, 'pin': 1}]
HASHABLE_LEAVES = [l for l in LEAVES if l['c'] not in ()]


def containers_of(children_sets, tier):
    out = []
    for c in SEQS + COLLS + ITER1:
        for kids in children_sets:
            if c == 'range':
                kids2 = [{'c': 'int', 'v': i} for i in range(len(kids))]
                out.append({'c': c, 'items': kids2})
                continue
            if c in ('set', 'frozenset', 'USet', 'dict_keys') and any(not _hashable(k) for k in kids):
                continue
            out.append({'c': c, 'items': list(kids)})
    for c in MAPS:
        for kids in children_sets:
            if any(not _hashable(k) for k in kids):
                continue
            vals = kids[::-1]
            if c == 'Counter':
                vals = [{'c': 'int', 'v': i + 1} for i in range(len(kids))]
            if c == 'dict_items':
                out.append({'c': c, 'items': [{'c': 'tuple', 'items': [k, v]} for k, v in zip(kids, vals)]})
                continue
            out.append({'c': c, 'pairs': [[k, v] for k, v in zip(kids, vals)]})
    return out


def _max_len(spec):
    kids = list(spec.get('items', [])) + [x for pr in spec.get('pairs', []) for x in pr]
    return max([len(spec.get('items', [])), len(spec.get('pairs', []))] + [_max_len(k) for k in kids])


def long_tuples():
    """Tuples around the length at which infer_hint stops spelling out a fixed-length hint."""
    I, S, F = {'c': 'int', 'v': 1}, {'c': 'str', 'v': 'a'}, {'c': 'float', 'v': '3/2'}
    out = []
    for n in (9, 10, 11, 12):
        out.append({'c': 'tuple', 'items': [I] * n})
        out.append({'c': 'tuple', 'items': [I, S] * (n // 2) + [I] * (n % 2)})
        out.append({'c': 'tuple', 'items': [I] * (n - 1) + [F]})
        out.append({'c': 'list', 'items': [{'c': 'tuple', 'items': [I] * (n - 1) + [S]}]})
    return out


def _hashable(spec):
    c = spec['c']
    if c in ('list', 'dict', 'set', 'deque', 'defaultdict', 'OrderedDict', 'Counter', 'ChainMap', 'UMutSeq', 'USet',
             'UGenList', 'UMap', 'UPatchMap', 'dict_keys', 'dict_items', 'dict_values'):
        return False
    if c in ('tuple', 'frozenset'):
        return all(_hashable(k) for k in spec.get('items', []))
    return True


def _distinct(kids):
    """dict keys / set items of a skeleton must be pairwise distinct *objects* to keep lengths."""
    seen = []
    for k in kids:
        key = (k['c'], k.get('v'), k.get('m'))
        if k['c'] in ('int', 'bool', 'float', 'ENum', 'complex'):
            key = ('num', float(eval(str(k.get('v', 1)))) if k['c'] != 'ENum' else 1.0)
        if key in seen and k['c'] not in ('UA', 'UC', 'object', 'UImpl'):
            return False
        seen.append(key)
    return True


def skeletons(tier, seed):
    leaves = LEAVES if tier != 'quick' else LEAVES[:12]
    sets = [[]]
    sets += [[l] for l in leaves]
    pairs = list(itertools.combinations(leaves[:7], 2))
    sets += [[a, b] for a, b in pairs]
    sets += [[leaves[0], leaves[0]], [leaves[1], leaves[1]]]      # homogeneous, len 2
    if tier != 'quick':
        sets += [[a, b, c] for a, b, c in list(itertools.combinations(leaves[:6], 3))[::2]]
    # siblings equal across types, in both orders (a container that merges equal items sees one)
    eqsets = [list(p) for p in itertools.permutations(ONES[:3] if tier == 'quick' else ONES, 2)]
    eqsets += [list(p) for p in itertools.permutations(ZEROS, 2)][:: (2 if tier == 'quick' else 1)]
    eqsets += [[ONES[1], ONES[0], leaves[1]], [ONES[2], leaves[1], ONES[0]], [ONES[0]] * 3 + [ONES[1]]]
    if tier != 'quick':
        eqsets += [list(p) for p in itertools.permutations(ONES[:4], 3)][::3]
        eqsets += [[{'c': 'tuple', 'items': [ONES[0], ONES[0]]}, {'c': 'tuple', 'items': [ONES[1], ONES[1]]}]]
    sets += eqsets
    # a bare object() next to items of other types (its hint is `object`, which a union must keep)
    OBJ = {'c': 'object'}
    sets += [[OBJ, leaves[0]], [leaves[0], OBJ], [OBJ, leaves[1], leaves[0]], [leaves[1], OBJ], [OBJ, OBJ, leaves[0]]]
    d1 = [s for s in containers_of(sets, tier) if _ok(s)]
    out = list(leaves) + d1
    # depth 2: containers of depth-1 containers (one or two children)
    inner = d1[::7] if tier == 'quick' else d1[::3]
    sets2 = [[i] for i in inner] + [[a, b] for a, b in zip(inner[::2], inner[1::2])]
    d2 = [s for s in containers_of(sets2, tier) if _ok(s)]
    out += d2[::3] if tier == 'quick' else d2
    if tier != 'quick':
        inner3 = d2[::41]
        sets3 = [[i] for i in inner3] + [[a, LEAVES[0]] for a in inner3[::2]]
        out += [s for s in containers_of(sets3, tier) if _ok(s)][::2]
    return out


def _ok(spec):
    c = spec['c']
    if 'items' in spec and c in ('set', 'frozenset', 'USet', 'dict_keys'):
        return _distinct(spec['items'])
    if c == 'dict_items':
        return _distinct([t['items'][0] for t in spec['items']])
    if 'pairs' in spec:
        return _distinct([k for k, _v in spec['pairs']])
    return True


def spec_name(spec):
    c = spec['c']
    if 'items' in spec:
        return f"{c}[{','.join(spec_name(i) for i in spec['items'])}]"
    if 'pairs' in spec:
        return f"{c}{{{','.join(spec_name(k) + ':' + spec_name(v) for k, v in spec['pairs'])}}}"
    if 'denotes' in spec:
        return f'class:{spec["denotes"]}'
    if spec.get('pin'):
        return f"{c}={spec.get('v', 'ONE')}"
    return c


def cases(tier, seed):
    out = []
    seen = set()
    for sk in skeletons(tier, seed):
        name = spec_name(sk)
        if name in seen:
            continue
        seen.add(name)
        out.append((name, sk, {}, {'gen': 'c20', 'spec': sk}))
    for sk in long_tuples()[:: (2 if tier == 'quick' else 1)]:
        name = spec_name(sk)
        if name not in seen:
            seen.add(name)
            out.append((name, sk, {}, {'gen': 'c20', 'spec': sk}))
    for sh in cyclic_shapes(tier):
        out.append((f'cyclic:{sh}', {'cyclic': sh}, {}, {'gen': 'c20', 'cyclic': sh}))
    return out


# ---- self-referential containers: a termination observation (enumerated, concrete -- labelled so)
CYC_KINDS = ['list', 'deque', 'dict', 'odict', 'umutseq']


def _cyc_mk(kind, n_extra):
    import collections
    from . import userclasses as uc
    if kind == 'list':
        c = [1, 'a', 2.0][:n_extra]
        return c, c.append
    if kind == 'deque':
        c = collections.deque([1, 'a', 2.0][:n_extra])
        return c, c.append
    if kind == 'dict':
        c = dict([('name', 'r'), ('size', 3), ('w', 2.0)][:n_extra])
        return c, (lambda x, c=c: c.__setitem__('self', x))
    if kind == 'odict':
        c = collections.OrderedDict([('a', 1), ('b', 's'), ('c', 2.0)][:n_extra])
        return c, (lambda x, c=c: c.__setitem__('self', x))
    c = uc.UMutSeq([1, 'a', 2.0][:n_extra])
    return c, c.append


def cyclic_object(shape):
    """shape: 'self:<kind>:<extra>' | 'pair:<kind1>:<kind2>:<extra>' | 'tuple:<kind>:<extra>'."""
    parts = shape.split(':')
    n = int(parts[-1])
    if parts[0] == 'self':
        c, add = _cyc_mk(parts[1], n)
        add(c)
        return c
    if parts[0] == 'pair':
        a, adda = _cyc_mk(parts[1], n)
        b, addb = _cyc_mk(parts[2], n)
        adda(b)
        addb(a)
        return a
    a, adda = _cyc_mk(parts[1], n)
    adda((a, 1))
    return a


def cyclic_shapes(tier):
    out = []
    for n in (0, 1, 2, 3):
        out += [f'self:{k}:{n}' for k in CYC_KINDS] + [f'tuple:{k}:{n}' for k in CYC_KINDS]
        pairs = [(a, b) for a in CYC_KINDS for b in CYC_KINDS]
        out += [f'pair:{a}:{b}:{n}' for a, b in (pairs if tier != 'quick' else pairs[::3])]
    return out


def cyclic_verdict(shape):
    """(problem or None): infer_hint on the self-referential object must return, with a recursion warning."""
    import warnings
    from beartype.bite import infer_hint
    obj = cyclic_object(shape)
    with warnings.catch_warnings(record=True) as w:
        warnings.simplefilter('always')
        try:
            infer_hint(obj)
        except RecursionError:
            return 'infer_hint() recursed until RecursionError'
        except Exception as e:
            return f'infer_hint() raised {type(e).__name__}: {str(e)[:120]}'
    if not any('recurs' in (type(x.message).__name__ + str(x.message)).lower() for x in w):
        return 'infer_hint() returned without a recursion warning'
    return None


def shape_constraints(U, spec, t):
    """x has the skeleton's class tree and lengths; scalar payloads stay free."""
    U.register(t)
    c = spec['c']
    cs = [U.cls(t) == U.K[c]]
    k = KIND[c]
    if k == 'meta':
        cs.append(U.denotes(t) == U.K[spec['denotes']])
    if k in ('enum', 'intenum'):
        if spec.get('pin'):
            cs.append(U.emem(t) == spec.get('m', 0))
    if spec.get('pin') and k in ('int', 'bool'):
        cs.append(U.ival(t) == int(spec['v']))
    if spec.get('pin') and k in ('float', 'complex'):
        cs.append(U.fval(t) == int(spec['v']))
    if 'items' in spec:
        cs.append(U.len(t) == len(spec['items']))
        for i, s in enumerate(spec['items']):
            cs += shape_constraints(U, s, U.item_of(t, i))
    if 'pairs' in spec:
        cs.append(U.len(t) == len(spec['pairs']))
        for i, (ks, vs) in enumerate(spec['pairs']):
            kt = U.item_of(t, i)
            cs += shape_constraints(U, ks, kt)
            cs.append(U.haskey(t, kt))
            cs += shape_constraints(U, vs, U.val_of(t, kt))
        if c == 'dict_items':
            pass
    if k == 'str':
        cs.append(U.len(t) >= 0)
    return cs


def install_validator_trees(hint):
    """infer_hint wraps user collections in Annotated[..., IsInstance[cls]]: give those validators
    a construction tree (read off their documented repr) so the reference semantics can read them."""
    from . import grammar
    import re
    stack = [hint]
    while stack:
        h = stack.pop()
        if typing.get_origin(h) is typing.Annotated:
            for v in h.__metadata__:
                m = re.fullmatch(r'beartype\.vale\.IsInstance\[(.*)\]', repr(v))
                if not m:
                    raise Unsupported(f'inferred validator {v!r}')
                qual = m.group(1)
                cls = None
                for n, pc in universe.PYCLS.items():
                    if f'{pc.__module__}.{pc.__qualname__}' == qual:
                        cls = pc
                if cls is None:
                    raise Unsupported(f'IsInstance[{qual}] outside the universe')
                grammar.VTREES[id(v)] = ('inst', cls)
                grammar._KEEP.append(v)
        stack.extend(a for a in typing.get_args(h) if a is not Ellipsis and not isinstance(a, (list, str, int, bytes)))


def run_case(prop, name, spec, confkw, tier, src):
    from beartype.bite import infer_hint
    import warnings
    out = CaseOut(name, confkw)
    t0 = time.time()
    if 'cyclic' in spec:
        out.obligations += 1
        bad = cyclic_verdict(spec['cyclic'])
        if bad:
            out.findings.append({'kind': 'c20_cyclic', 'program': 'infer_hint', 'label': f'self-referential container {spec["cyclic"]}: {bad}',
                                 'replay': write_replay('C20', {'kind': 'c20_cyclic', 'hint': src, 'cyclic': spec['cyclic']}),
                                 'detail': bad, 'hint': name, 'confkw': {}})
        else:
            out.discharged += 1
        out.observations.append('self-referential container: termination + recursion warning observed concretely (enumerated shape, not a solver verdict)')
        out.wall = time.time() - t0
        return out
    try:
        obj = universe.build(spec)
        with warnings.catch_warnings():
            warnings.simplefilter('ignore')
            H = infer_hint(obj)
        install_validator_trees(H)
        try:
            node = refsem.parse(H)
        except Unsupported as e:
            out.inconclusive.append(f'reference semantics cannot read the inferred hint {H!r}: {e}')
            return out
        g = generate(H, confkw)
        if g.error is not None:
            out.findings.append({'kind': 'c20', 'program': 'tester', 'label': f'beartype rejects its own inferred hint {H!r}',
                                 'replay': write_replay('C20', {'kind': 'c20', 'hint': src, 'obj': spec, 'draw': 0}),
                                 'detail': f'{type(g.error).__name__}: {g.error}', 'hint': name, 'confkw': {}})
            return out
        enc = Encoding(g, max(4, _max_len(spec)), node=node)
        d = Discharger(enc)
        shape = shape_constraints(enc.U, spec, enc.x)
        r0, _ = d.check(*shape)
        out.nontrivial = (r0 == 'sat') and ('items' in spec or 'pairs' in spec)
        if r0 != 'sat':
            out.inconclusive.append(f'skeleton not inhabited in the universe ({r0})')
            return out
        from .engine_g import oblige
        oblige(out, d, enc, 'C20', f'object of this shape rejected by is_bearable(x, infer_hint(x)) = {H!r} for some draw/payload',
               shape + [z3.Not(enc.guards['tester'])], ('c20', 'tester'), src)
        oblige(out, d, enc, 'C20', f'inferred hint {H!r} does not describe every object of this shape at full depth',
               shape + [z3.Not(enc.full())], ('c20', 'full'), src)
        for sc in enc.side['tester']:
            oblige(out, d, enc, 'C20', f'{sc.kind} reachable at `{sc.where}`', shape + [sc.cond], ('c20', 'tester'), src)
        out.queries += d.stats['queries']
        out.solver_s += d.stats['solver_s']
        out.sample = {'skeleton': name, 'inferred_hint': repr(H),
                      'obligation': 'unsat(shape(x) & ~code_H(x,r)) and unsat(shape(x) & ~[[H]](x)) for all payloads and draws'}
    except Unsupported as e:
        out.inconclusive.append(f'unsupported: {e}')
    except Exception:
        out.inconclusive.append('harness exception: ' + traceback.format_exc()[-700:])
    out.wall = time.time() - t0
    return out


def _has_hash_container(spec):
    if spec.get('c') in ('set', 'frozenset', 'USet', 'dict_keys'):
        return len(spec.get('items', [])) >= 2 or any(_has_hash_container(i) for i in spec.get('items', []))
    kids = list(spec.get('items', [])) + [x for pr in spec.get('pairs', []) for x in pr]
    return any(_has_hash_container(k) for k in kids)


def _shift_ints(spec, k):
    """Same shape, other int payloads (unpinned leaves only): changes the iteration order of hash
    containers, which the model fixes but CPython derives from the hashes."""
    s = dict(spec)
    if s.get('c') == 'int' and not s.get('pin') and 'v' in s:
        s['v'] = s['v'] + 7 * k
    if 'items' in s:
        s['items'] = [_shift_ints(i, k) for i in s['items']]
    if 'pairs' in s:
        s['pairs'] = [[_shift_ints(a, k), _shift_ints(b, k)] for a, b in s['pairs']]
    return s


def replay_c20(p):
    """A model whose object contains a set-like container with several items fixes an iteration
    order that a rebuilt CPython set need not have: the replay is repeated with other (free) int
    payloads until the order matches or 12 variants are used up."""
    ok, detail = _replay_c20(p)
    if ok or p.get('kind') == 'c20_cyclic' or not _has_hash_container(p.get('obj', {})):
        return ok, detail
    for k in range(1, 13):
        ok2, detail2 = _replay_c20(dict(p, obj=_shift_ints(p['obj'], k)))
        if ok2:
            return ok2, detail2 + f' (int payloads shifted by {7 * k} to obtain the iteration order of the model)'
    return ok, detail


def _replay_c20(p):
    from beartype.bite import infer_hint
    from beartype.door import is_bearable
    from .drawpin import PIN
    import warnings
    if p.get('kind') == 'c20_cyclic':
        bad = cyclic_verdict(p['cyclic'])
        return bool(bad), bad or 'terminates with a recursion warning'
    obj = universe.build(p['obj'])
    with warnings.catch_warnings():
        warnings.simplefilter('ignore')
        try:
            H = infer_hint(obj)
        except Exception as e:
            return True, f'infer_hint({obj!r}) raised {type(e).__name__}: {e}'
    PIN.value = p.get('draw', 0)
    try:
        try:
            ok = is_bearable(universe.build(p['obj']) if not hasattr(obj, '__next__') else obj, H)
        except Exception as e:
            return True, f'is_bearable({obj!r}, infer_hint(obj) = {H!r}) raised {type(e).__name__}: {e}'
    finally:
        PIN.value = None
    if not ok:
        return True, f'is_bearable({obj!r}, infer_hint(obj)) is False; infer_hint(obj) = {H!r}, draw {p.get("draw", 0)}'
    if p.get('program') == 'full':
        install_validator_trees(H)
        if not refsem.conforms(universe.build(p['obj']), refsem.parse(H)):
            return True, f'infer_hint({obj!r}) = {H!r} does not describe the object at full depth'
    return False, 'accepted'
