"""Capture of the code beartype generates, without touching /repo.

The ``__code__`` of ``beartype._util.func.utilfuncmake.make_func`` is swapped for a
spy that records ``(func_name, func_code, func_locals)`` and then runs the original
body.  Because the *function object* stays the same, every ``from ... import
make_func`` in beartype sees the spy.
"""
from __future__ import annotations
import types, random
from contextlib import contextmanager

_installed = False
RECORDS: list = []
_orig_holder = {}


BY_CODE: dict = {}            # code object of every generated function -> Record (never cleared)
_orig_by_globals: dict = {}   # id(module globals of a utilfuncmake copy) -> clone of its original make_func


def install(force=False):
    """Install the spy on the copy of beartype currently in sys.modules."""
    global _installed
    from beartype._util.func import utilfuncmake as m
    gid = id(m.make_func.__globals__)
    if gid in _orig_by_globals:
        return
    orig = m.make_func
    clone = types.FunctionType(
        orig.__code__, orig.__globals__, 'make_func_orig',
        orig.__defaults__, orig.__closure__)
    clone.__kwdefaults__ = orig.__kwdefaults__
    _orig_by_globals[gid] = clone
    _orig_holder['f'] = clone

    def spy(func_name, func_code, func_globals=None, func_locals=None,
            func_doc=None, func_label=None, func_labeller=None,
            func_wrapped=None, is_debug=False, exception_cls=None):
        import bearverif.capture as _c
        if func_locals is None:
            func_locals = {}
        res = _c._orig_by_globals[id(globals())](
            func_name, func_code, func_globals, func_locals, func_doc,
            func_label, func_labeller, func_wrapped, is_debug,
            *(() if exception_cls is None else (exception_cls,)))
        rec = _c.Record(func_name, func_code, dict(func_locals), func_globals, res)
        _c.RECORDS.append(rec)
        try:
            _c.BY_CODE[res.__code__] = rec
        except Exception:
            pass
        return res
    # spy must not have free variables: it does not (uses import inside).
    m.make_func.__code__ = spy.__code__
    m.make_func.__defaults__ = spy.__defaults__
    m.make_func.__kwdefaults__ = None
    _installed = True


class Record:
    __slots__ = ('name', 'code', 'scope', 'globals', 'func')

    def __init__(self, name, code, scope, globs, func):
        self.name, self.code, self.scope, self.globals, self.func = name, code, scope, globs, func

    def __repr__(self):
        return f'<Record {self.name} {len(self.code)} chars>'


@contextmanager
def recording():
    install()
    start = len(RECORDS)
    out: list = []
    try:
        yield out
    finally:
        out.extend(RECORDS[start:])
        del RECORDS[start:]


def clear_beartype_caches():
    from beartype._util.cache.utilcacheclear import clear_caches
    clear_caches()


class _Dummy:
    """An object no hint of the grammar accepts or inspects."""


def capture_door(hint, conf=None):
    """Return (tester Record | None, raiser Record | None): the functions the real
    public ``is_bearable`` / ``die_if_unbearable`` generate for ``hint`` under
    ``conf`` (``None`` when beartype generated nothing, i.e. the hint is
    ignorable and every object is accepted)."""
    from beartype import BeartypeConf
    from beartype.door import is_bearable, die_if_unbearable
    from beartype.roar import BeartypeCallHintViolation
    import warnings
    if conf is None:
        conf = BeartypeConf()
    clear_beartype_caches()
    with recording() as recs:
        with warnings.catch_warnings():
            warnings.simplefilter('ignore')
            is_bearable(_Dummy(), hint, conf=conf)
    tester = recs[-1] if recs else None
    with recording() as recs2:
        with warnings.catch_warnings():
            warnings.simplefilter('ignore')
            n0 = len(RECORDS)
            try:
                die_if_unbearable(_Dummy(), hint, conf=conf)
            except BeartypeCallHintViolation:
                pass
            except Exception:
                # a configured non-beartype violation class raised by the generated raiser is
                # expected; anything raised before code was generated is a generation error
                if len(RECORDS) == n0:
                    raise
    raiser = recs2[-1] if recs2 else None
    return tester, raiser


def capture_wrapper(func, conf=None):
    """Decorate ``func`` with the real ``@beartype(conf=conf)`` and return
    (decorated, Record | None)."""
    from beartype import beartype, BeartypeConf
    if conf is None:
        conf = BeartypeConf()
    with recording() as recs:
        dec = beartype(conf=conf)(func)
    return dec, (recs[-1] if recs else None)
