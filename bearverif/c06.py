"""C06 — hook scoping follows the nearest registered package after any hook history (Engine P).

Enumerated: history skeletons (operations, which name / configuration index each uses, the number
of labels of each name).  Symbolic: every label of every package / module name -- so one skeleton
covers every aliasing pattern (equal names, proper prefixes, siblings, a conflict on the second
name of a multi-name call, a query equal to / below / beside a registered name, a skipped
ancestor).  The *real* claw registry code runs on forking proxy strings; on every feasible path
the declarative model of the property is compared with what the real code did.
"""
from __future__ import annotations
import itertools
import json
import sys
import time
import traceback
import z3

from .proxy import Explorer, SymLabel, SymName, SymBool
from .engine_g import CaseOut
from .core import write_replay

NCONF = 3
# The registry starts with a built-in exclusion list (claw_state.packages_trie_blacklist: 'beartype' and
# the packages of datashamemod.BLACKLIST_PACKAGE_NAMES).  One representative of it is re-keyed as a
# label *constant* with a negative code, so that a symbolic label may alias it (labels are free
# integers); the other built-in names stay concrete and are assumed distinct from every symbolic label.
BUILTIN_CODES = {'beartype': -1}


def confs():
    from beartype import BeartypeConf
    return [BeartypeConf(), BeartypeConf(is_debug=True), BeartypeConf(is_pep484_tower=True)]


# --------------------------------------------------------------------------- skeletons

def skeletons(tier):
    """Operation sequences (without the final query).  Names are referred to by index; the same
    index means the same name *object*, different indices may still alias symbolically."""
    ops1 = []
    for c in range(2):
        ops1.append(('package', 0, c))
        ops1.append(('all', c))
    ops1.append(('packages', (0, 1), 0))
    ops1.append(('skip', 0))
    out = []
    # length 1 and 2 exhaustively over a small alphabet, with fresh name indices per op
    def rename(seq):
        # give every op its own name indices (aliasing is symbolic, not by index)
        res, k = [], 0
        for op in seq:
            if op[0] == 'package':
                res.append(('package', k, op[2])); k += 1
            elif op[0] == 'packages':
                res.append(('packages', (k, k + 1), op[2])); k += 2
            elif op[0] == 'skip':
                res.append(('skip', k)); k += 1
            else:
                res.append(op)
        return res, k
    base = [('package', 0, 0), ('package', 0, 1), ('packages', (0, 1), 0), ('packages', (0, 1), 1),
            ('all', 0), ('all', 1), ('skip', 0)]
    maxlen = 2 if tier == 'quick' else 3
    for n in range(1, maxlen + 1):
        for seq in itertools.product(base, repeat=n):
            if n == 3 and sum(1 for o in seq if o[0] == 'packages') > 1:
                continue
            out.append(list(seq))
    # two skip lists followed by a registration (a skipped descendant of a skipped package)
    for last in (('all', 0), ('package', 0, 0), ('package', 0, 1)):
        out.append([('skip', 0), ('skip', 0), last])
        out.append([last, ('skip', 0), ('skip', 0)])
    # beartyping blocks: enter/exit around 0..1 inner op, preceded by 0..1 op
    inner = [[], [('package', 0, 0)], [('package', 0, 1)], [('all', 0)], [('all', 1)]]
    pre = [[], [('all', 0)], [('all', 1)], [('package', 0, 0)], [('package', 0, 1)], [('skip', 0)]]
    for p in pre:
        for c in range(2):
            for i in inner:
                out.append(p + [('enter', c)] + i + [('exit',)])
    if tier != 'quick':
        for p in pre[:4]:
            for c1 in range(2):
                for c2 in range(2):
                    out.append(p + [('enter', c1), ('enter', c2), ('exit',), ('exit',)])
                    out.append(p + [('enter', c1), ('package', 0, c2), ('exit',), ('package', 0, 1 - c2)])
    res = []
    for seq in out:
        r, k = rename(seq)
        res.append((r, k))
    return res


def name_length_choices(nnames, tier):
    lens = (1, 2) if tier == 'quick' else (1, 2, 3)
    if nnames == 0:
        return [()]
    combos = list(itertools.product(lens, repeat=nnames))
    if len(combos) > (8 if tier == 'quick' else 27):
        # keep a spread: all-equal lengths, increasing, decreasing, mixed
        step = max(1, len(combos) // (8 if tier == 'quick' else 27))
        combos = combos[::step]
    return combos


def cases(tier, seed):
    out = [('loader_exclusion_regex', {}, {}, {'gen': 'c06re'})]
    qlens = (1, 2, 3) if tier != 'quick' else (2, 3)
    for ops, nn in skeletons(tier):
        for lens in name_length_choices(nn, tier):
            for ql in qlens:
                if lens and ql < min(lens) and tier == 'quick':
                    continue
                sk = {'ops': ops, 'lens': list(lens), 'qlen': ql}
                name = json.dumps(sk, separators=(',', ':'))
                out.append((name, sk, {}, {'gen': 'c06', 'sk': sk}))
    return out


# --------------------------------------------------------------------------- the declarative model

class Model:
    """The property, as z3 terms over the labels.  Configurations are indices; -1 = None."""

    def __init__(self):
        self.regs = []       # (labels, conf index, effective: Bool)
        self.skips = []      # labels
        self.all = z3.IntVal(-1)
        self.stack = []

    @staticmethod
    def eqn(a, b):
        if len(a) != len(b):
            return z3.BoolVal(False)
        return z3.And([x == y for x, y in zip(a, b)])

    @staticmethod
    def prefix(a, q):
        if len(a) > len(q):
            return z3.BoolVal(False)
        return z3.And([x == y for x, y in zip(a, q)])

    def conflict(self, n, c):
        alts = [z3.And(eff, self.eqn(l, n)) for l, cc, eff in self.regs if cc != c]
        return z3.Or(alts) if alts else z3.BoolVal(False)

    def package(self, names, c):
        """Register names with conf c atomically; returns the condition under which it raises."""
        conf = z3.Or([self.conflict(n, c) for n in names])
        for n in names:
            self.regs.append((n, c, z3.Not(conf)))
        return conf

    def all_(self, c):
        conf = z3.And(self.all != -1, self.all != c)
        self.all = z3.If(conf, self.all, z3.IntVal(c))
        return conf

    def skip(self, n):
        self.skips.append(n)

    def enter(self, c):
        self.stack.append(self.all)
        self.all = z3.IntVal(c)

    def exit(self):
        self.all = self.stack.pop()

    def query(self, q):
        res = self.all
        for k in range(1, len(q) + 1):
            for l, c, eff in self.regs:
                if len(l) == k:
                    res = z3.If(z3.And(eff, self.prefix(l, q)), z3.IntVal(c), res)
        black = z3.Or([self.prefix(s, q) for s in self.skips] + [q[0] == c for c in BUILTIN_CODES.values()])
        return z3.If(black, z3.IntVal(-1), res)

    def nonempty(self):
        regs = z3.Or([eff for _l, _c, eff in self.regs]) if self.regs else z3.BoolVal(False)
        return z3.Or(regs, self.all != -1)


# --------------------------------------------------------------------------- running the real code

_PATCHED = False


def _patch_real_code():
    """make_package_names_from_args -> pass-through (identifier syntax validation is concrete-string
    code outside the claim); everything else is the real code."""
    global _PATCHED
    if _PATCHED:
        return
    from beartype.claw._package import _clawpkgmake as mk

    def passthrough(*, claw_coverage, conf, package_name=None, package_names=None):
        if package_name is not None:
            return (package_name,)
        return package_names
    mk.make_package_names_from_args.__code__ = passthrough.__code__
    mk.make_package_names_from_args.__kwdefaults__ = passthrough.__kwdefaults__
    _PATCHED = True


def _rekey_builtin(trie):
    """Replace the concrete key of each representative built-in excluded package by a label constant
    (same trie value), so that real dict lookups compare symbolic labels against it."""
    for nm, code in BUILTIN_CODES.items():
        if nm in trie and not isinstance(next((k for k in trie if k == nm and isinstance(k, SymLabel)), None), SymLabel):
            v = dict.pop(trie, nm)
            dict.__setitem__(trie, SymLabel(z3.IntVal(code), nm), v)


def run_real(ops, names, q, CONFS, HOOKABLE):
    """Drive the real registry.  Returns (events, query result index, hook present)."""
    from beartype.claw._package.clawpkgmain import hook_packages, _blacklist_packages
    from beartype.claw._package.clawpkgenum import BeartypeClawCoverage
    from beartype.claw._package.clawpkgtrie import get_package_conf_or_none
    from beartype.claw._package.clawpkgcontext import beartyping
    from beartype.claw._clawstate import claw_state, claw_lock
    from beartype.roar import BeartypeClawHookException
    from beartype.claw._package.clawpkgtrie import PackagesTrieBlacklisted
    claw_state.reinit()
    PackagesTrieBlacklisted.clear()      # the shared leaf singleton must not carry state across paths
    _rekey_builtin(claw_state.packages_trie_blacklist)
    events = []
    cms = []
    try:
        for op in ops:
            try:
                if op[0] == 'package':
                    hook_packages(claw_coverage=BeartypeClawCoverage.PACKAGES_ONE, conf=CONFS[op[2]], package_name=names[op[1]])
                elif op[0] == 'packages':
                    hook_packages(claw_coverage=BeartypeClawCoverage.PACKAGES_MANY, conf=CONFS[op[2]],
                                  package_names=tuple(names[i] for i in op[1]))
                elif op[0] == 'all':
                    hook_packages(claw_coverage=BeartypeClawCoverage.PACKAGES_ALL, conf=CONFS[op[1]])
                elif op[0] == 'skip':
                    with claw_lock:
                        _blacklist_packages((names[op[1]],))
                elif op[0] == 'enter':
                    cm = beartyping(conf=CONFS[op[1]])
                    cm.__enter__()
                    cms.append(cm)
                elif op[0] == 'exit':
                    cms.pop().__exit__(None, None, None)
                events.append('ok')
            except BeartypeClawHookException:
                events.append('raise')
        got = get_package_conf_or_none(q)
        idx = -1 if got is None else next((i for i, h in enumerate(HOOKABLE) if h is got or h == got), -2)
        hook = claw_state.beartype_path_hook is not None and claw_state.beartype_path_hook in sys.path_hooks
        return events, idx, hook
    finally:
        while cms:
            try:
                cms.pop().__exit__(None, None, None)
            except Exception:
                pass
        claw_state.reinit()


def run_case(prop, name, sk, confkw, tier, src):
    if src.get('gen') == 'c06re':
        from . import c06re
        return c06re.run_case(prop, name, sk, confkw, tier, src)
    out = CaseOut(name, confkw)
    t0 = time.time()
    try:
        _patch_real_code()
        from beartype.claw._package._clawpkgmake import make_conf_hookable
        CONFS = confs()
        HOOKABLE = [make_conf_hookable(c) for c in CONFS]
        ops, lens, qlen = sk['ops'], sk['lens'], sk['qlen']
        zs = [[z3.Int(f'n{k}_{j}') for j in range(L)] for k, L in enumerate(lens)]
        zq = [z3.Int(f'q_{j}') for j in range(qlen)]
        names = [SymName([SymLabel(z, f'n{k}_{j}') for j, z in enumerate(row)]) for k, row in enumerate(zs)]
        q = SymName([SymLabel(z, f'q_{j}') for j, z in enumerate(zq)])
        allz = [z for row in zs for z in row] + zq
        ex = Explorer([z >= -len(BUILTIN_CODES) for z in allz], max_paths=4000)
        # the model, built once (it is a term over the labels; conflicts are symbolic)
        M = Model()
        expect_raise = []
        ends_block = False
        for op in ops:
            if op[0] == 'package':
                expect_raise.append(M.package([zs[op[1]]], op[2]))
            elif op[0] == 'packages':
                expect_raise.append(M.package([zs[i] for i in op[1]], op[2]))
            elif op[0] == 'all':
                expect_raise.append(M.all_(op[1]))
            elif op[0] == 'skip':
                M.skip(zs[op[1]])
                expect_raise.append(z3.BoolVal(False))
            elif op[0] == 'enter':
                M.enter(op[1])
                expect_raise.append(z3.BoolVal(False))
            elif op[0] == 'exit':
                M.exit()
                expect_raise.append(z3.BoolVal(False))
        expect_q = M.query(zq)
        expect_hook_after_exit = M.nonempty() if ops and ops[-1][0] == 'exit' else None
        findings = []

        def path(ex):
            events, idx, hook = run_real(ops, names, q, CONFS, HOOKABLE)
            claims = []
            for i, (ev, er) in enumerate(zip(events, expect_raise)):
                claims.append((f'op {i} {ops[i]}: raises BeartypeClawHookException iff it conflicts',
                               er if ev == 'raise' else z3.Not(er)))
            claims.append((f'query answers the nearest registered ancestor (real answer: conf {idx})', expect_q == idx))
            if expect_hook_after_exit is not None:
                claims.append((f'after the beartyping block the path hook is present iff something remains registered (real: {hook})',
                               expect_hook_after_exit if hook else z3.Not(expect_hook_after_exit)))
            for label, f in claims:
                out.obligations += 1
                ok, r, m = ex.entails(f)
                if ok:
                    out.discharged += 1
                elif r == z3.sat:
                    vals = {str(z): m.eval(z, model_completion=True).as_long() for z in allz}
                    findings.append((label, vals, events, idx))
                    return True
                else:
                    out.inconclusive.append(f'{label}: solver {r}')
            return True
        ex.run(path)
        out.queries += ex.queries
        out.solver_s += ex.solver_s
        out.nontrivial = ex.paths > 1
        out.paths = ex.paths
        if ex.truncated:
            out.inconclusive.append(f'path budget exhausted after {ex.paths} paths')
        seen = set()
        for label, vals, events, idx in findings:
            payload = {'property': 'C06', 'kind': 'c06', 'hint': src, 'labels': vals, 'label': label}
            key = label.split('(')[0]
            if key in seen:
                continue
            seen.add(key)
            path_ = write_replay('C06', payload)
            from .replay import replay_subprocess
            ok, detail = replay_subprocess(path_)
            if ok:
                out.findings.append({'kind': 'c06', 'program': 'claw registry', 'label': label, 'replay': path_,
                                     'detail': detail, 'hint': name, 'confkw': {}})
            else:
                out.inconclusive.append(f'{label}: model did not reproduce through the public API ({detail})')
        out.sample = {'skeleton': sk, 'feasible_aliasing_paths': ex.paths,
                      'assertion': 'pc => (real outcome == model outcome) for every op and the final query'}
    except Exception:
        out.inconclusive.append('harness exception: ' + traceback.format_exc()[-800:])
    out.wall = time.time() - t0
    return out


# --------------------------------------------------------------------------- concrete replay (public API)

def replay_c06(p):
    """Run the skeleton with concrete names through the *public* beartype.claw API (no patches)
    and compare with the model evaluated on the same names."""
    from beartype.claw import beartype_package, beartype_packages, beartype_all, beartyping
    from beartype.claw._package.clawpkgtrie import get_package_conf_or_none
    from beartype.claw._package._clawpkgmake import make_conf_hookable
    from beartype.claw._clawstate import claw_state
    from beartype.roar import BeartypeClawHookException
    from beartype import BeartypeConf
    sk = p['hint']['sk']
    vals = p['labels']
    ops, lens, qlen = sk['ops'], sk['lens'], sk['qlen']
    inv = {c: n for n, c in BUILTIN_CODES.items()}
    lab = lambda nm: inv.get(vals[nm], f'pk{vals[nm]}'.replace('-', '_'))
    names = ['.'.join(lab(f'n{k}_{j}') for j in range(L)) for k, L in enumerate(lens)]
    q = '.'.join(lab(f'q_{j}') for j in range(qlen))
    CONFS = confs()
    HOOKABLE = [make_conf_hookable(c) for c in CONFS]
    # concrete model
    regs, skips, allc, stack = {}, [], None, []
    from beartype.claw._package.clawpkgtrie import PackagesTrieBlacklisted
    claw_state.reinit()
    PackagesTrieBlacklisted.clear()
    problems = []
    cms = []
    for i, op in enumerate(ops):
        raised = False
        try:
            if op[0] == 'package':
                beartype_package(names[op[1]], conf=CONFS[op[2]])
            elif op[0] == 'packages':
                beartype_packages(tuple(names[j] for j in op[1]), conf=CONFS[op[2]])
            elif op[0] == 'all':
                beartype_all(conf=CONFS[op[1]])
            elif op[0] == 'skip':
                beartype_package(f'pkzz_unrelated{i}', conf=BeartypeConf(claw_skip_package_names=(names[op[1]],)))
            elif op[0] == 'enter':
                cm = beartyping(conf=CONFS[op[1]])
                cm.__enter__()
                cms.append(cm)
            elif op[0] == 'exit':
                cms.pop().__exit__(None, None, None)
        except BeartypeClawHookException:
            raised = True
        # model step
        want_raise = False
        if op[0] in ('package', 'packages'):
            ns = [names[op[1]]] if op[0] == 'package' else [names[j] for j in op[1]]
            want_raise = any(n in regs and regs[n] != op[2] for n in ns)
            if not want_raise:
                for n in ns:
                    regs[n] = op[2]
        elif op[0] == 'all':
            want_raise = allc is not None and allc != op[1]
            if not want_raise:
                allc = op[1]
        elif op[0] == 'skip':
            skips.append(names[op[1]])
            regs.setdefault(f'pkzz_unrelated{i}', None)
        elif op[0] == 'enter':
            stack.append(allc)
            allc = op[1]
        elif op[0] == 'exit':
            allc = stack.pop()
        if raised != want_raise:
            problems.append(f'op {i} {op} on {names}: raised={raised}, the model says {want_raise}')
    got = get_package_conf_or_none(q)
    gi = -1 if got is None else next((k for k, h in enumerate(HOOKABLE) if h == got), -2)
    parts = q.split('.')
    want = allc if allc is not None else -1
    for k in range(1, len(parts) + 1):
        pre = '.'.join(parts[:k])
        if pre in regs and regs[pre] is not None:
            want = regs[pre]
    if any(parts[:len(s.split('.'))] == s.split('.') for s in skips) or parts[0] in BUILTIN_CODES:
        want = -1
    if gi != want:
        problems.append(f'after {ops} on names {names}: get_package_conf_or_none({q!r}) is conf {gi}, the model says {want}')
    if ops and ops[-1][0] == 'exit':
        hook = claw_state.beartype_path_hook is not None and claw_state.beartype_path_hook in sys.path_hooks
        nonempty = bool([v for v in regs.values() if v is not None]) or allc is not None
        if hook != nonempty and not any(o[0] == 'skip' for o in ops):
            problems.append(f'after the beartyping block: path hook present={hook}, registry non-empty={nonempty}')
    while cms:
        cms.pop().__exit__(None, None, None)
    claw_state.reinit()
    if problems:
        return True, '; '.join(problems)
    return False, 'public API agrees with the model'
