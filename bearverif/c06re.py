"""C06, loader side: the built-in exclusion of BeartypeSourceFileLoader.get_code() is a compiled regular
expression applied to the module name.  The pattern is read from /repo at run time, translated from
Python's own parse tree (re._parser) into a z3 regular expression, and the call site's method
(match / fullmatch / search) is read from the AST of get_code(); module names are symbolic strings
(dotted identifiers of any length).  Obligations -- "excluded" must be a property of the *package*:

  R1  excluded(s)  =>  excluded(top(s))           (whole first label; `beartype_extras` is not `beartype`)
  R2  excluded(t), t a single label, s = t.u  =>  excluded(s)      (every descendant is excluded)
  R3  excluded('beartype') -- the recursion guard the docstring promises
  R4  the excluded single-label names form a finite list: no excluded label is longer than the pattern text

A `sat` answer is replayed by calling the real compiled pattern on the model's strings.
"""
from __future__ import annotations
import ast
import inspect
import time
import traceback
import z3

from .engine_g import CaseOut
from .core import write_replay, second_opinion


class Unsup(Exception):
    pass


def _tr(items, flags):
    """sre parse items -> z3 regex (no anchors inside)."""
    import re._constants as C
    parts = []
    for op, av in items:
        if op is C.LITERAL:
            parts.append(z3.Re(z3.StringVal(chr(av))))
        elif op is C.ANY:
            # '.' without DOTALL: anything but a newline
            parts.append(z3.Union(z3.Range(chr(0x20), chr(0x7e)), z3.Range(chr(0x0b), chr(0x1f)), z3.Range(chr(0), chr(9))))
        elif op is C.SUBPATTERN:
            parts.append(_tr(av[3], flags))
        elif op is C.BRANCH:
            alts = [_tr(a, flags) for a in av[1]]
            parts.append(alts[0] if len(alts) == 1 else z3.Union(*alts))
        elif op is C.MAX_REPEAT or op is C.MIN_REPEAT:
            lo, hi, sub = av
            r = _tr(sub, flags)
            if hi is C.MAXREPEAT:
                rep = z3.Star(r) if lo == 0 else (z3.Plus(r) if lo == 1 else z3.Concat(*([r] * lo), z3.Star(r)))
            else:
                rep = z3.Loop(r, lo, hi)
            parts.append(rep)
        elif op is C.IN:
            alts = []
            for o2, a2 in av:
                if o2 is C.LITERAL:
                    alts.append(z3.Re(z3.StringVal(chr(a2))))
                elif o2 is C.RANGE:
                    alts.append(z3.Range(chr(a2[0]), chr(a2[1])))
                else:
                    raise Unsup(f'character class item {o2}')
            parts.append(alts[0] if len(alts) == 1 else z3.Union(*alts))
        else:
            raise Unsup(f'regex construct {op}')
    if not parts:
        return z3.Re(z3.StringVal(''))
    return parts[0] if len(parts) == 1 else z3.Concat(*parts)


def translate(pattern, method):
    """z3 regex R such that `compiled.<method>(s) is not None`  <=>  InRe(s, R), for s without newlines."""
    import re._parser as P
    import re._constants as C
    tree = list(P.parse(pattern))
    begin = end = False
    if tree and tree[0] == (C.AT, C.AT_BEGINNING):
        begin, tree = True, tree[1:]
    if tree and tree[-1] == (C.AT, C.AT_END):
        end, tree = True, tree[:-1]      # `$` also matches before a trailing newline; names have none
    if any(op is C.AT for op, _ in tree):
        raise Unsup('anchor inside the pattern')
    r = _tr(tree, 0)
    anych = z3.Union(z3.Range(chr(0x20), chr(0x7e)), z3.Range(chr(0), chr(0x1f)))
    full = z3.Star(anych)
    if method == 'fullmatch':
        return r
    left = z3.Re(z3.StringVal('')) if (begin or method == 'match') else full
    right = z3.Re(z3.StringVal('')) if end else full
    return z3.Concat(left, r, right)


def call_site():
    """(pattern, method) actually used by the loader, read from /repo's current source."""
    from beartype.claw._importlib import _clawimpfileloader as L
    from beartype._data.shame.module import datashamemodclaw as D
    src = inspect.getsource(L.BeartypeSourceFileLoader.get_code)
    import textwrap
    t = ast.parse(textwrap.dedent(src))
    sites = []
    for n in ast.walk(t):
        if (isinstance(n, ast.Call) and isinstance(n.func, ast.Attribute) and isinstance(n.func.value, ast.Name)
                and n.func.value.id == 'BLACKLIST_CLAW_PACKAGE_NAMES_REGEX'):
            sites.append(n.func.attr)
    if len(sites) != 1 or sites[0] not in ('match', 'fullmatch', 'search'):
        raise Unsup(f'call sites of the exclusion regex in get_code(): {sites}')
    rx = D.BLACKLIST_CLAW_PACKAGE_NAMES_REGEX
    if rx.flags & ~32:      # re.UNICODE only
        raise Unsup(f'regex flags {rx.flags}')
    return rx, sites[0]


def run_case(prop, name, spec, confkw, tier, src):
    out = CaseOut(name, confkw)
    t0 = time.time()
    try:
        rx, method = call_site()
        R = translate(rx.pattern, method)
        ident = z3.Union(z3.Range('a', 'z'), z3.Range('A', 'Z'), z3.Range('0', '9'), z3.Re(z3.StringVal('_')))
        label = z3.Plus(ident)
        dotted = z3.Concat(label, z3.Star(z3.Concat(z3.Re(z3.StringVal('.')), label)))
        s, t, u = z3.String('s'), z3.String('t'), z3.String('u')
        exc = lambda x: z3.InRe(x, R)
        dot = z3.Re(z3.StringVal('.'))
        exc_top = z3.Intersect(R, label)                       # excluded single-label names
        below = z3.Concat(exc_top, z3.Option(z3.Concat(dot, dotted)))
        # single-variable regular-language inclusions (decided by z3's derivative-based regex solver):
        obligations = [
            ('R1 a name is excluded only if its top-level package is (whole first label)',
             [z3.InRe(s, z3.Intersect(R, dotted, z3.Complement(below)))], ('s',)),
            ('R2 every module below an excluded top-level package is excluded',
             [z3.InRe(s, z3.Intersect(z3.Concat(exc_top, dot, dotted), z3.Complement(R)))], ('s',)),
            ('R3 beartype itself is excluded (recursion guard)',
             [s == z3.StringVal('beartype'), z3.Not(exc(s))], ('s',)),
            # the excluded top-level packages are a *list*: a finite language.  A pattern without a loop cannot
            # accept a word longer than its own text, so an excluded label longer than the pattern means that a
            # family of look-alike names (`beartype_extras`, `shutilx`) is excluded with the listed package
            ('R4 the excluded top-level names are a finite list (no look-alike longer than the pattern itself)',
             [z3.InRe(s, exc_top), z3.Length(s) > len(rx.pattern)], ('s',)),
        ]
        # translator validation: the real pattern and the encoding agree on concrete names
        samples = ['beartype', 'beartype.door', 'beartype_extras', 'xbeartype', 'beartype.', 'numbers', 'numbers.x.y',
                   'importlib.util', 'importlibx', 'a.beartype', 'shutil', 'tempfile.z', 'os', 'os.path', '', 'b']
        for w in samples:
            out.obligations += 1
            real = getattr(rx, method)(w) is not None
            sv = z3.Solver(); sv.set('timeout', 20000)
            sv.add(z3.InRe(z3.StringVal(w), R) != z3.BoolVal(real))
            if str(sv.check()) == 'unsat':
                out.discharged += 1
                out.validated += 1
            else:
                out.inconclusive.append(f'HARNESS-ERROR regex translation disagrees with re on {w!r}')
        vac = z3.Solver(); vac.set('timeout', 20000)
        vac.add(z3.InRe(s, dotted), exc(s), z3.Length(s) > 12)
        out.obligations += 1
        if str(vac.check()) == 'sat':
            out.discharged += 1
        else:
            out.inconclusive.append('vacuity: no excluded dotted name longer than 12 characters found')
        for lab, fs, names in obligations:
            out.obligations += 1
            sv = z3.Solver(); sv.set('timeout', 60000)
            sv.add(*fs)
            tq = time.time()
            r = str(sv.check())
            out.solver_s += time.time() - tq
            out.queries += 1
            if r == 'unsat':
                out.discharged += 1
                second_opinion(sv, force=True)
            elif r == 'sat':
                m = sv.model()
                vals = {'s': m.eval(s, model_completion=True).as_string()}
                ok, detail = _judge(rx, method, lab, vals)
                if ok:
                    path = write_replay('C06', {'property': 'C06', 'kind': 'c06re', 'hint': src, 'label': lab, 'names': vals,
                                                'method': method})
                    out.findings.append({'kind': 'c06re', 'program': 'loader exclusion regex', 'label': lab, 'replay': path,
                                         'detail': detail, 'hint': name, 'confkw': {}})
                else:
                    out.inconclusive.append(f'HARNESS-ERROR model does not reproduce on the real pattern: {detail}')
            else:
                out.inconclusive.append(f'{lab}: solver unknown')
        out.nontrivial = True
        out.sample = {'pattern': rx.pattern, 'method': method, 'obligations': [o[0] for o in obligations],
                      'strings': 'dotted identifiers of any length (z3 sequence theory, no length bound)'}
    except Unsup as e:
        out.inconclusive.append(f'unsupported: {e}')
    except Exception:
        out.inconclusive.append('harness exception: ' + traceback.format_exc()[-700:])
    out.wall = time.time() - t0
    return out


def _judge(rx, method, lab, vals):
    """Concrete verdict of the real compiled pattern on the model's name."""
    hit = lambda w: getattr(rx, method)(w) is not None
    w = vals['s']
    top = w.split('.')[0]
    real = {'s': w, 'excluded(s)': hit(w), 'top': top, 'excluded(top)': hit(top)}
    if lab.startswith('R1'):
        ok = hit(w) and not hit(top)
    elif lab.startswith('R2'):
        ok = hit(top) and not hit(w)
    elif lab.startswith('R4'):
        ok = hit(w) and '.' not in w and len(w) > len(rx.pattern)
    else:
        ok = not hit(w)
    return bool(ok), f'{lab}: {real} (method {method})'


def replay_c06re(p):
    rx, method = call_site()
    return _judge(rx, method, p['label'], p['names'])
