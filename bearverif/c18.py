"""C18 — hint-rewriting options behave exactly like rewriting the hints by hand (Engine G).

For each hint H containing float / complex / an overridden hint at any depth, code is generated
(a) under the rewriting configuration for H and (b) under the default configuration for the
hand-rewritten hint H'; the solver shows guard_a(x,r) xor guard_b(x,r) unsat for the tester, the
raiser guard and the decorated parameter / return guards.  The violation_* options must leave
every guard equivalent to the default one.
"""
from __future__ import annotations
import typing
from typing import Annotated, Literal, Union
import z3

from . import grammar, refsem
from .core import generate, Encoding, Discharger, PROGRAMS
from .engine_g import CaseOut, oblige, bound_for, _unbounded
from .universe import Unsupported


def rewrite(h, mapping):
    """Independent 20-line rewriter: replace every occurrence of a key of ``mapping`` in ``h``."""
    try:
        if h in mapping:
            # the replacement is itself a hint: other keys occurring inside it are replaced too
            # (an occurrence of the key inside its own replacement is not replaced again)
            rest = {k: v for k, v in mapping.items() if k != h}
            return rewrite(mapping[h], rest) if rest else mapping[h]
    except TypeError:
        pass
    # a type variable stands for its bound / constraints, a NewType for its supertype: occurrences there count
    # (beartype reduces both before looking overrides up; refsem.parse does the same)
    if isinstance(h, typing.TypeVar):
        if h.__bound__ is not None:
            nb = rewrite(h.__bound__, mapping)
            return h if nb is h.__bound__ else typing.TypeVar(h.__name__, bound=nb)
        if h.__constraints__:
            nc = tuple(rewrite(c, mapping) for c in h.__constraints__)
            return h if all(a is b for a, b in zip(nc, h.__constraints__)) else typing.TypeVar(h.__name__, *nc)
        return h
    if hasattr(h, '__supertype__') and callable(h):
        ns = rewrite(h.__supertype__, mapping)
        return h if ns is h.__supertype__ else typing.NewType(h.__name__, ns)
    # a PEP 695 alias is transparent: it stands for its value, occurrences inside it count
    TAT = getattr(typing, 'TypeAliasType', None)
    if TAT is not None and isinstance(h, TAT):
        if refsem._mentions_alias(h.__value__, h):
            return h                      # recursive alias: opaque to the hand rewriter (such hints are not C18 cases)
        return rewrite(h.__value__, mapping)
    origin = typing.get_origin(h)
    if origin is None:
        return h
    args = typing.get_args(h)
    if TAT is not None and isinstance(origin, TAT):
        return rewrite(refsem._subst(origin.__value__, dict(zip(origin.__type_params__, args))), mapping)
    if origin is Literal:
        return h
    if origin is Annotated:
        return Annotated[(rewrite(args[0], mapping),) + tuple(h.__metadata__)]
    import collections.abc as cabc
    if origin is cabc.Callable:
        params = args[0] if args[0] is Ellipsis or not isinstance(args[0], list) else [rewrite(a, mapping) for a in args[0]]
        return typing.Callable[params, rewrite(args[1], mapping)]
    def one(a):
        if a is Ellipsis:
            return a
        inner = refsem._unpacked(a)
        if inner is not None:               # *tuple[...] / Unpack[Tuple[...]]: rewrite inside, unpack again
            t = tuple[tuple(x if x is Ellipsis else rewrite(x, mapping) for x in inner)]
            return next(iter(t))
        return rewrite(a, mapping)
    new = tuple(one(a) for a in args)
    if new == args:
        return h
    if origin is Union or origin is getattr(__import__('types'), 'UnionType', None):
        return Union[new]
    if hasattr(h, 'copy_with'):
        return h.copy_with(new)
    return origin[new]


TOWER_MAP = {float: Union[float, int], complex: Union[complex, float, int]}

OVERRIDE_SETS = [
    [['int', 'str']], [['int', 'int|None']], [['str', 'str|bytes']], [['UA', 'UB']], [['UA', 'UA|None']],
    [['List[int]', 'Tuple[int,...]']], [['List[int]', 'List[str]']], [['int', 'float|int'], ['str', 'bytes']],
    [['float', 'float|int']], [['int', 'Lit1']], [['str', 'Set[str]']],
    # chained overrides: the replacement of one key mentions another key
    [['int', 'int|str'], ['str', 'str|bytes']], [['UA', 'UA|None'], ['None', 'int']],
    [['bytes', 'str|bytes'], ['str', 'int|str']],
    # a replacement union wider than the union the key sits in
    [['UA', 'int|str|bytes']], [['UA', 'UA|int|str|None']], [['bytes', 'int|str|bytes']],
]


def cases(tier, seed):
    import re
    hs = grammar.hint_set(tier, seed)
    if tier != 'quick':
        # without the random depth-3 hints: on an idle machine ~250 of their equivalence queries still ran into
        # the solver budget (z3 `unknown` after 10 s and again after 60 s), i.e. the run ended inconclusive
        seeded = {n for n, _h in grammar.seeded_hints(seed, 2000)}
        hs = [x for x in hs if x[0] not in seeded]
    out = []
    # numeric tower
    for name, h in hs:
        if re.search(r'float|complex', name):
            for base in ({}, {'is_random': False}) if re.search(r'List|Sequence|Tuple\.\.\.', name) else ({},):
                kw = dict(base, is_pep484_tower=True)
                out.append((name, h, kw, {'gen': 'c18', 'tier': tier, 'seed': seed, 'name': name, 'mode': 'tower'}))
    # hint overrides
    # thorough: every 4th (hint, override set) pair of the 18 000-hint grammar (~30 000 cases; sized by wall time)
    step = 4 if tier != 'quick' else 3
    k = 0
    for oi, ov in enumerate(OVERRIDE_SETS):
        keys = [grammar.OVERRIDE_HINTS[a] for a, _ in ov]
        pats = [re.compile(re.escape(a).replace('\\|', '[|]') + r'(?![\w\]]*\w)') for a, _ in ov]
        for name, h in hs:
            if not any(_mentions(h, key) for key in keys):
                continue
            if 'ARec' in name:
                continue        # recursive alias: the hand rewriter does not unroll it
            if 'UIntList' in name or 'UTagged' in name:
                # UIntList(List[int]) / UTagged(UGenList[str], ...) carry an item hint in the class definition, not in the hint as
                # written; beartype applies overrides there too (same situation as Counter below)
                continue
            if 'Counter' in name and int in keys:
                # Counter[T] carries an implicit `int` value hint that is not an occurrence in the
                # hint as written; whether an override of int applies to it is not settled by the
                # property (beartype applies it) -- outside the claim, see DESIGN C18
                continue
            k += 1
            if k % step:
                continue
            out.append((name, h, {'hint_overrides': ov},
                        {'gen': 'c18', 'tier': tier, 'seed': seed, 'name': name, 'mode': 'override', 'ov': ov}))
    # numeric tower combined with an override whose replacement mentions float
    for name, h in hs:
        if _mentions(h, str) and (tier != 'quick' or hash(name) % 3 == 0):
            ov = [['str', 'str|float']]
            out.append((name, h, {'hint_overrides': ov, 'is_pep484_tower': True},
                        {'gen': 'c18', 'tier': tier, 'seed': seed, 'name': name, 'mode': 'override+tower', 'ov': ov}))
    # numeric tower together with an override that merely restates one of the two tower expansions (legal: it does
    # not contradict the tower), or restates both: the other expansion must still apply
    for name, h in hs:
        if re.search(r'float|complex', name) and (tier != 'quick' or hash(name) % 2 == 0):
            for ov in ([['float', 'float|int']], [['complex', 'complex|float|int']],
                       [['float', 'float|int'], ['complex', 'complex|float|int']]):
                if tier == 'quick' and len(ov) == 2 and hash(name) % 4:
                    continue
                out.append((name, h, {'hint_overrides': ov, 'is_pep484_tower': True},
                            {'gen': 'c18', 'tier': tier, 'seed': seed, 'name': name, 'mode': 'override+tower', 'ov': ov}))
    # violation-type family never changes the verdict
    vt = [{'violation_type': 'VerifWarning'}, {'violation_type': 'VerifError'},
          {'violation_door_type': 'VerifWarning', 'violation_param_type': 'VerifError'},
          {'violation_return_type': 'VerifWarning'}]
    for i, (name, h) in enumerate(hs):
        if i % (9 if tier == 'quick' else 3):
            continue
        kw = vt[(i // 3) % len(vt)]
        out.append((name, h, kw, {'gen': 'c18', 'tier': tier, 'seed': seed, 'name': name, 'mode': 'violation'}))
    return out


def _mentions(h, target):
    try:
        if h == target and type(h) is type(target):
            return True
    except Exception:
        pass
    if typing.get_origin(h) is Literal:
        return False
    if isinstance(h, typing.TypeVar):
        return any(_mentions(b, target) for b in ((h.__bound__,) if h.__bound__ is not None else h.__constraints__))
    if hasattr(h, '__supertype__') and callable(h):
        return _mentions(h.__supertype__, target)
    TAT = getattr(typing, 'TypeAliasType', None)
    if TAT is not None and isinstance(h, TAT):
        return False if refsem._mentions_alias(h.__value__, h) else _mentions(h.__value__, target)
    if TAT is not None and isinstance(typing.get_origin(h), TAT):
        return _mentions(typing.get_origin(h).__value__, target) or any(_mentions(a, target) for a in typing.get_args(h))
    return any(_mentions(a, target) for a in typing.get_args(h) if a is not Ellipsis and not isinstance(a, list))


def rewritten_hint(h, src):
    if src['mode'] == 'tower':
        return rewrite(h, TOWER_MAP)
    if src['mode'] == 'override':
        return rewrite(h, {grammar.OVERRIDE_HINTS[a]: grammar.OVERRIDE_HINTS[b] for a, b in src['ov']})
    if src['mode'] == 'override+tower':
        m = {grammar.OVERRIDE_HINTS[a]: grammar.OVERRIDE_HINTS[b] for a, b in src['ov']}
        m.update(TOWER_MAP)
        return rewrite(h, m)
    return h


def hint_by_name(src):
    for name, h in grammar.hint_set(src.get('tier', 'quick'), src.get('seed', 0)):
        if name == src['name']:
            return h
    raise KeyError(src)


def run_case(prop, name, hint, confkw, tier, src):
    out = CaseOut(name, confkw)
    import time
    t0 = time.time()
    try:
        h2 = rewritten_hint(hint, src)
        base_kw = {k: v for k, v in confkw.items() if k in ('is_random',)}
        ga = generate(hint, confkw)
        gb = generate(h2, base_kw)
        if ga.error is not None or gb.error is not None:
            out.skipped = f'{type(ga.error or gb.error).__name__}: {str(ga.error or gb.error)[:100]}'
            return out
        tower = bool(confkw.get('is_pep484_tower'))
        ov = {grammar.OVERRIDE_HINTS[a]: grammar.OVERRIDE_HINTS[b] for a, b in confkw.get('hint_overrides', [])}
        node = refsem.parse(h2)
        ea = Encoding(ga, bound_for(tier, node), node=node)
        eb = Encoding(gb, None, node=node, share=ea)
        d = Discharger(ea)
        # make the second encoding's assumptions part of the base
        ea.assume.extend(eb.assume)
        for r in eb.results.values():
            ea.results[id(r)] = r
        out.nontrivial = ga.tester is not None or gb.tester is not None
        for prog in PROGRAMS:
            fa, fb = ea.guards[prog], eb.guards[prog]
            pre = []
            if prog == 'return':
                pre = [ea.guards['param'], eb.guards['param']]
            oblige(out, d, ea, 'C18', f'{prog}: guard under {confkw} differs from guard of hand-rewritten hint',
                   pre + [z3.Xor(fa, fb)], ('rewrite_disagree', prog), src,
                   extra={'base_confkw': base_kw})
        # the rewritten-by-option checker must also satisfy C01 w.r.t. the rewritten meaning
        full = ea.sem.full(node, ea.x)
        oblige(out, d, ea, 'C18', 'tester under the option rejects an object conforming to the rewritten hint',
               [full, z3.Not(ea.guards['tester'])], ('rewrite_disagree', 'tester'), src, extra={'base_confkw': base_kw})
        out.queries += d.stats['queries']
        out.solver_s += d.stats['solver_s']
        out.sample = {'hint': name, 'conf': confkw, 'hand_rewritten': repr(h2)[:200],
                      'obligation': 'unsat(code_conf(x,r) xor code_default_on_rewritten(x,r)) for tester/raiser/param/return'}
    except Unsupported as e:
        out.inconclusive.append(f'unsupported: {e}')
    except Exception:
        import traceback
        out.inconclusive.append('harness exception: ' + traceback.format_exc()[-600:])
    out.wall = time.time() - t0
    return out
