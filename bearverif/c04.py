"""C04 — the wrapper is transparent and checks each argument against its own parameter.

Enumerated: signatures (kind sequences of <= 4 parameters x annotated subsets x defaults).
Symbolic: the call shape — number of positional arguments n in [0, MAXN], their values, and for
every name of the alphabet (parameter names + two foreign names) whether it is passed by keyword
and with which value; plus every value's class, the callee's result and whether the callee raises.

The real generated wrapper is executed symbolically (symstmt); Python's binding algorithm, written
from the language reference, is the oracle.
"""
from __future__ import annotations
import itertools
import time
import traceback
import z3

from . import userclasses as uc
from .capture import capture_wrapper
from .core import write_replay
from .engine_g import CaseOut
from .symstmt import run_function, bind_call_shape
from .sym import VObj, VConc, VInt
from .universe import Universe, Unsupported

MAXN = 7
FOREIGN = ['zz1', 'zz2']
ANN_CLASSES = [('UA', uc.UA), ('UC', uc.UC), ('UImpl', uc.UImpl), ('UH', uc.UH), ('UGenPlain', uc.UGenPlain)]
RET_CLASS = ('UContainer', uc.UContainer)

# kinds: P positional-only, F flexible, V *args, K keyword-only, W **kwargs


def kind_sequences(maxp):
    out = []
    for np_ in range(0, maxp + 1):
        for nf in range(0, maxp + 1 - np_):
            for v in (0, 1):
                for nk in range(0, maxp + 1 - np_ - nf - v):
                    for w in (0, 1):
                        tot = np_ + nf + v + nk + w
                        if tot == 0 or tot > maxp:
                            continue
                        out.append('P' * np_ + 'F' * nf + 'V' * v + 'K' * nk + 'W' * w)
    return out


def signatures(tier):
    maxp = 3 if tier == 'quick' else 5
    sigs = []
    for ks in kind_sequences(maxp):
        n = len(ks)
        npos = sum(1 for k in ks if k in 'PF')
        nkw = sum(1 for k in ks if k == 'K')
        ann_subsets = list(itertools.product((0, 1), repeat=n))
        if tier == 'quick' and n == 3:
            ann_subsets = [a for a in ann_subsets if sum(a) in (1, 3) or a == (1, 0, 1)]
        if n == 5:
            # five parameters: all annotated, each single one, and two alternating patterns
            ann_subsets = [a for a in ann_subsets if sum(a) in (1, 5) or a in ((1, 0, 1, 0, 1), (0, 1, 0, 1, 0))]
        # an annotation beartype ignores (`object` / `Any`): the parameter takes a position in the signature but no
        # check -- a wrapper that counts checked parameters instead of positions misindexes everything after it
        extra = []
        for ann in ann_subsets:
            zeros = [i for i, a in enumerate(ann) if a == 0]
            if zeros and sum(ann):
                for z in {zeros[0], zeros[-1]}:
                    extra.append(tuple(2 if i == z else a for i, a in enumerate(ann)))
        if n >= 2:
            extra.append(tuple([2] + [1] * (n - 1)))
        ann_subsets = ann_subsets + [e for e in dict.fromkeys(extra) if e not in ann_subsets]
        for ann in ann_subsets:
            for ret in ((1,) if sum(ann) else (1,)):
                if not sum(ann) and not ret:
                    continue
                dpos_opts = sorted({0, min(1, npos), npos})
                dkw_opts = sorted({0, nkw})
                for dpos in dpos_opts:
                    for dkw in dkw_opts:
                        if tier == 'quick' and (dpos, dkw) not in ((0, 0), (min(1, npos), nkw)):
                            continue
                        sigs.append({'kinds': ks, 'ann': list(ann), 'dpos': dpos, 'dkw': dkw, 'ret': ret})
    return sigs


def sig_name(sig):
    return f"{sig['kinds']}:ann={''.join(map(str, sig['ann']))}:dpos={sig['dpos']}:dkw={sig['dkw']}"


def make_function(sig, record=None):
    """Real function object for the signature; its body records what it received."""
    ks = sig['kinds']
    names = [f'p{i}' for i in range(len(ks))]
    npos = sum(1 for k in ks if k in 'PF')
    parts = []
    ns = {'REC': record if record is not None else [], 'RESULT': [None], 'RAISE': [None]}
    posi = 0
    seen_slash = False
    star_done = False
    for i, (k, nm) in enumerate(zip(ks, names)):
        ann = ''
        if sig['ann'][i] == 2:
            import typing
            ns['Any'] = typing.Any
            ann = ': object' if i % 2 == 0 else ': Any'
        elif sig['ann'][i]:
            cname = ANN_CLASSES[i % len(ANN_CLASSES)][0]
            ns[cname] = ANN_CLASSES[i % len(ANN_CLASSES)][1]
            ann = f': {cname}'
        if k in 'PF':
            has_default = posi >= npos - sig['dpos']
            posi += 1
            if k == 'F' and not seen_slash and 'P' in ks:
                parts.append('/')
                seen_slash = True
            parts.append(f'{nm}{ann}' + (' = DEFAULT' if has_default else ''))
        elif k == 'V':
            if 'P' in ks and not seen_slash:
                parts.append('/')
                seen_slash = True
            parts.append(f'*{nm}{ann}')
            star_done = True
        elif k == 'K':
            if 'P' in ks and not seen_slash:
                parts.append('/')
                seen_slash = True
            if not star_done:
                parts.append('*')
                star_done = True
            parts.append(f'{nm}{ann}' + (' = DEFAULT' if sig['dkw'] else ''))
        elif k == 'W':
            if 'P' in ks and not seen_slash:
                parts.append('/')
                seen_slash = True
            parts.append(f'**{nm}{ann}')
    if 'P' in ks and not seen_slash:
        parts.append('/')
    ns['DEFAULT'] = object()          # an object of no annotation class: defaults must stay unchecked
    ns[RET_CLASS[0]] = RET_CLASS[1]
    ret = f' -> {RET_CLASS[0]}' if sig['ret'] else ''
    src = (f"def f({', '.join(parts)}){ret}:\n"
           f"    REC.append(dict(locals()))\n"
           f"    if RAISE[0] is not None:\n        raise RAISE[0]\n"
           f"    return RESULT[0]\n")
    ns['__name__'] = 'bearverif.c04_generated'
    exec(compile(src, '<c04 signature>', 'exec', dont_inherit=True), ns)
    f = ns['f']
    f.__verif_ns__ = ns
    f.__verif_src__ = src
    return f


def cases(tier, seed):
    out = []
    for sig in signatures(tier):
        nm = sig_name(sig)
        out.append((nm, sig, {}, {'gen': 'c04', 'sig': sig}))
    return out


def reference_bind(sig, U, shape):
    """Python's argument binding as z3 terms over the symbolic call shape."""
    ks = sig['kinds']
    names = [f'p{i}' for i in range(len(ks))]
    n, a, has, kw = shape['n'], shape['args'], shape['has'], shape['kw']
    PP = [(i, nm) for i, (k, nm) in enumerate(zip(ks, names)) if k in 'PF']
    npos = len(PP)
    has_v = 'V' in ks
    has_w = 'W' in ks
    errors = []
    if not has_v:
        errors.append(n > npos)
    bound, val = {}, {}
    for j, (i, nm) in enumerate(PP):
        pos_b = z3.IntVal(j) < n
        if ks[i] == 'F':
            errors.append(z3.And(pos_b, has[nm]))          # multiple values
            bound[nm] = z3.Or(pos_b, has[nm])
            val[nm] = z3.If(pos_b, a[j], kw[nm])
        else:
            bound[nm] = pos_b
            val[nm] = a[j]
        has_default = j >= npos - sig['dpos']
        if not has_default:
            errors.append(z3.Not(bound[nm]))               # missing
    for i, (k, nm) in enumerate(zip(ks, names)):
        if k == 'K':
            bound[nm] = has[nm]
            val[nm] = kw[nm]
            if not sig['dkw']:
                errors.append(z3.Not(has[nm]))
    keywordable = {nm for k, nm in zip(ks, names) if k in 'FK'}
    extra = [nm for nm in has if nm not in keywordable]
    if not has_w:
        for nm in extra:
            errors.append(has[nm])                         # unexpected keyword (incl. positional-only names)
    bindok = z3.Not(z3.Or(errors)) if errors else z3.BoolVal(True)
    # (value, annotation class, parameter name, condition-it-is-passed)
    checks = []
    for i, (k, nm) in enumerate(zip(ks, names)):
        if sig['ann'][i] != 1:
            continue
        A = ANN_CLASSES[i % len(ANN_CLASSES)][1]
        if k in 'PFK':
            checks.append((val[nm], A, nm, bound[nm]))
        elif k == 'V':
            for j in range(npos, MAXN):
                checks.append((a[j], A, nm, z3.IntVal(j) < n))
        elif k == 'W':
            for en in extra:
                checks.append((kw[en], A, nm, has[en]))
    return bindok, checks


def run_case(prop, name, sig, confkw, tier, src):
    out = CaseOut(name, confkw)
    t0 = time.time()
    try:
        f = make_function(sig)
        dec, rec = capture_wrapper(f)
        if rec is None:
            # identity decoration (nothing annotated): transparent by construction
            out.obligations += 1
            if dec is f:
                out.discharged += 1
            else:
                out.inconclusive.append('no wrapper generated but a different object returned')
            return out
        U = Universe(3)
        names = [f'p{i}' for i in range(len(sig['kinds']))]
        binder, shape = bind_call_shape(U, MAXN, names + FOREIGN)
        res = run_function(rec, U, binder)
        bindok, checks = reference_bind(sig, U, shape)
        okall = z3.And([z3.Implies(c, U.isinstance(v, A)) for v, A, nm, c in checks]) if checks else z3.BoolVal(True)
        s = z3.Solver()
        s.set('timeout', 20000)
        s.add(U.constraints())
        s.add(res.extra)
        stats = {'q': 0, 't': 0.0}

        def ask(label, *fs, kind='shape'):
            out.obligations += 1
            s.push()
            s.add(*fs)
            t1 = time.time()
            r = str(s.check())
            stats['t'] += time.time() - t1
            stats['q'] += 1
            m = s.model() if r == 'sat' else None
            s.pop()
            if r == 'unsat':
                out.discharged += 1
                return
            if r == 'unknown':
                out.inconclusive.append(f'{label}: solver unknown')
                return
            payload = {'property': 'C04', 'kind': 'c04', 'hint': src, 'label': label,
                       'shape': reify_shape(U, m, shape, res)}
            path = write_replay('C04', payload)
            from .replay import replay_subprocess
            ok, detail = replay_subprocess(path)
            if ok:
                out.findings.append({'kind': kind, 'program': 'wrapper', 'label': label, 'replay': path,
                                     'detail': detail, 'hint': name, 'confkw': confkw})
            else:
                out.inconclusive.append(f'{label}: model did not reproduce ({detail})')

        viols = res.of('violation')
        param_viols = [e for e in viols if not _is_return(e)]
        ret_viols = [e for e in viols if _is_return(e)]
        calls = res.of('call')
        returns = res.of('return')
        craise = res.of('callee_raise')
        # structure
        out.obligations += 1
        struct = []
        if len(calls) != 1:
            struct.append(f'{len(calls)} call-through sites')
        elif calls[0].data['node'].replace(' ', '') not in ('__beartype_func(*args,**kwargs)',):
            struct.append(f'call-through is `{calls[0].data["node"]}`')
        if res.of('try'):
            struct.append('try/except around generated code')
        if len(returns) != 1:
            struct.append(f'{len(returns)} return statements')
        if struct:
            out.findings.append({'kind': 'structure', 'program': 'wrapper', 'label': '; '.join(struct),
                                 'replay': write_replay('C04', {'kind': 'structure', 'hint': src, 'code': rec.code}),
                                 'detail': '; '.join(struct), 'hint': name, 'confkw': confkw})
            return out
        out.discharged += 1
        call_pc = calls[0].pc
        any_pviol = z3.Or([e.pc for e in param_viols]) if param_viols else z3.BoolVal(False)
        # (1a) nothing checked against a foreign annotation / no false alarm / defaults unchecked
        ask('binding succeeds and every passed value fits its own annotation, yet a parameter violation is raised',
            bindok, okall, any_pviol)
        # (1b) nothing missed: a misfit reaches the callee
        ask('binding succeeds, some passed value misfits its own annotation, yet the callee is called',
            bindok, z3.Not(okall), call_pc)
        # (1c) the violation names a parameter whose own bound value misfits
        for e in param_viols:
            nm = e.data['kwargs'].get('pith_name')
            pv = e.data['kwargs'].get('pith_value')
            if not (isinstance(nm, VConc) and isinstance(pv, VObj)):
                out.inconclusive.append('violation call without constant pith_name / symbolic pith_value')
                continue
            mine = [z3.And(c, v == pv.t, z3.Not(U.isinstance(v, A))) for v, A, pn, c in checks if pn == nm.v]
            ask(f'violation for parameter {nm.v!r} raised for a value that is not a misfitting value bound to it',
                bindok, e.pc, z3.Not(z3.Or(mine)) if mine else z3.BoolVal(True))
        # (2) called exactly when all fit
        ask('binding succeeds and every passed value fits, yet the callee is not called', bindok, okall, z3.Not(call_pc))
        # (3) result / exception pass through unchanged
        result = calls[0].data['result']
        rv = returns[0].data['value']
        if not (isinstance(rv, VObj)):
            out.inconclusive.append('wrapper returns a non-object value')
        else:
            ask('the wrapper returns something other than the callee result', returns[0].pc, rv.t != result)
        ret_ok = U.isinstance(result, RET_CLASS[1]) if sig['ret'] else z3.BoolVal(True)
        ask('callee returned a fitting result, yet the wrapper does not return it',
            call_pc, z3.Not(res.callee_raises), ret_ok, z3.Not(returns[0].pc))
        ask('callee returned a misfitting result, yet the wrapper returns it',
            call_pc, z3.Not(res.callee_raises), z3.Not(ret_ok), returns[0].pc)
        if not craise:
            out.inconclusive.append('no propagation point for callee exceptions found')
        else:
            ask('the callee raised, yet the wrapper goes on (exception swallowed or replaced)',
                call_pc, res.callee_raises, z3.Or([e.pc for e in returns + ret_viols]))
        # (4) nothing but violations / the call: no IndexError, KeyError, unbound name for any shape
        for sc in res.side:
            ask(f'{sc.kind} reachable at `{sc.where}` for some call shape', sc.cond)
        out.nontrivial = True
        out.queries += stats['q']
        out.solver_s += stats['t']
        out.sample = {'signature': f.__verif_src__.split('\n')[0], 'call_shape': f'n in [0,{MAXN}] positional, keywords over {names + FOREIGN}',
                      'obligations': ['bindok & okall & violation unsat', 'bindok & ~okall & call unsat',
                                      'violation(p) only for a misfitting value bound to p', 'result/exception passthrough']}
    except Unsupported as e:
        out.inconclusive.append(f'unsupported: {e}')
    except Exception:
        out.inconclusive.append('harness exception: ' + traceback.format_exc()[-800:])
    out.wall = time.time() - t0
    return out


def _is_return(e):
    nm = e.data['kwargs'].get('pith_name')
    return isinstance(nm, VConc) and nm.v == 'return'


def reify_shape(U, m, shape, res):
    ev = lambda e: m.eval(e, model_completion=True)
    n = ev(shape['n']).as_long()
    args = [U.reify(m, shape['args'][i], 2) for i in range(min(n, len(shape['args'])))]
    kwargs = {nm: U.reify(m, shape['kw'][nm], 2) for nm, h in shape['has'].items() if z3.is_true(ev(h))}
    result = None
    for e in res.of('call'):
        result = U.reify(m, e.data['result'], 2)
    return {'args': args, 'kwargs': kwargs, 'result': result,
            'callee_raises': bool(z3.is_true(ev(res.callee_raises)))}


def replay_c04(p):
    """Concrete oracle: Python's own binding (inspect.signature.bind) + isinstance."""
    import inspect
    from beartype import beartype
    from beartype.roar import BeartypeCallHintParamViolation, BeartypeCallHintReturnViolation
    from . import universe
    sig = p['hint']['sig']
    sh = p['shape']
    rec_plain, rec_dec = [], []
    f = make_function(sig, rec_plain)
    g = make_function(sig, rec_dec)
    dec = beartype(g)
    args = [universe.build(s) for s in sh['args']]
    kwargs = {k: universe.build(v) for k, v in sh['kwargs'].items()}
    result = universe.build(sh['result']) if sh['result'] else None

    class Boom(Exception):
        pass
    boom = Boom('callee raised')
    for fn in (f, g):
        fn.__verif_ns__['RESULT'][0] = result
        fn.__verif_ns__['RAISE'][0] = boom if sh['callee_raises'] else None
    # expected behaviour from Python's own binder
    try:
        ba = inspect.signature(f).bind(*args, **kwargs)
        bindok = True
    except TypeError:
        bindok = False
    expected = None
    if bindok:
        hints = {k: v for k, v in f.__annotations__.items()}
        misfit = []
        params = inspect.signature(f).parameters
        for nm, v in ba.arguments.items():
            if nm not in hints:
                continue
            A = f.__verif_ns__[hints[nm]] if isinstance(hints[nm], str) else hints[nm]
            kind = params[nm].kind
            vals = list(v) if kind is inspect.Parameter.VAR_POSITIONAL else (list(v.values()) if kind is inspect.Parameter.VAR_KEYWORD else [v])
            misfit += [(nm, x) for x in vals if not isinstance(x, A)]
        if misfit:
            expected = ('param_violation', {nm for nm, _ in misfit})
        elif sh['callee_raises']:
            expected = ('raises', boom)
        else:
            RA = f.__annotations__.get('return')
            RA = f.__verif_ns__[RA] if isinstance(RA, str) else RA
            expected = ('return_violation',) if (RA is not None and not isinstance(result, RA)) else ('returns', result)
    try:
        got = ('returns', dec(*args, **kwargs))
    except BeartypeCallHintParamViolation as e:
        got = ('param_violation', e)
    except BeartypeCallHintReturnViolation as e:
        got = ('return_violation',)
    except TypeError as e:
        got = ('typeerror', e)
    except Boom as e:
        got = ('raises', e)
    except Exception as e:
        got = ('other', e)
    runs = len(rec_dec)
    problems = []
    if not bindok:
        if got[0] not in ('typeerror', 'param_violation') or runs:
            problems.append(f'unbindable call: got {got[0]} with {runs} run(s) of the original')
    else:
        if expected[0] == 'param_violation':
            if got[0] != 'param_violation' or runs:
                problems.append(f'expected a parameter violation without running the original, got {got[0]} ({runs} runs)')
        elif expected[0] == 'raises':
            if got[0] != 'raises' or got[1] is not boom or runs != 1:
                problems.append(f'expected the callee exception to propagate unchanged, got {got[0]} ({runs} runs)')
        elif expected[0] == 'return_violation':
            if got[0] != 'return_violation' or runs != 1:
                problems.append(f'expected a return violation, got {got[0]} ({runs} runs)')
        else:
            if got[0] != 'returns' or got[1] is not result or runs != 1:
                problems.append(f'expected the result object back after exactly one run, got {got[0]} ({runs} runs)')
            else:
                # arguments observed inside the original are the ones Python would bind
                f(*args, **kwargs)
                a, b = rec_plain[-1], rec_dec[-1]
                if set(a) != set(b) or any(a[k] is not b[k] and a[k] != b[k] for k in a):
                    problems.append(f'arguments seen by the original differ: {b!r} vs {a!r}')
    if problems:
        return True, f'{f.__verif_src__.splitlines()[0]} called with args={args!r} kwargs={kwargs!r}: ' + '; '.join(problems)
    return False, f'behaves as Python binding + isinstance predicts ({got[0]})'
