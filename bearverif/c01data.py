"""C01 (model validation): beartype's own hint x pith tables pushed through the encoding.

The data-driven tests that would exercise these tables are `always_fail` in this sandbox (an
unrelated NumPy collection error), but the tables are importable.  For every (hint, pith) pair whose
pith lies in the object universe:

* the *encoding* of the really generated tester, constrained to the pith's abstraction and a draw,
  must evaluate to what the real tester returns (translator + universe validation, solver-decided);
* the reference semantics must agree with the table's verdict (satisfied piths conform at full
  depth; unsatisfied piths do not) -- validates refsem.py against beartype's own expectations.

A disagreement is a harness error (exit 2), never a VIOLATION: it means my model is wrong.
"""
from __future__ import annotations
import importlib
import time
import traceback
import warnings
import z3

from . import refsem
from .core import generate
from .engine_g import CaseOut
from .universe import Universe, Unsupported

MODS = ['_data_pep484', '_data_pep544', '_data_pep585', '_data_pep586', '_data_pep593', '_data_pep604']
_METAS = None


def metas():
    global _METAS
    if _METAS is None:
        out = []
        for m in MODS:
            try:
                mod = importlib.import_module('beartype_test.a00_unit.data.hint.pep.proposal.' + m)
                fn = getattr(mod, [n for n in dir(mod) if n.startswith('hints_pep') and n.endswith('_meta')][0])
                with warnings.catch_warnings():
                    warnings.simplefilter('ignore')
                    out.extend((m, hm) for hm in fn())
            except Exception:
                continue
        _METAS = out
    return _METAS


def cases(tier, seed):
    ms = metas()
    step = 1 if tier != 'quick' else 2
    return [(f'testdata:{m}:{i}:{repr(hm.hint)[:60]}', i, {}, {'gen': 'testdata', 'index': i})
            for i, (m, hm) in enumerate(ms) if i % step == 0]


def run_case(prop, name, idx, confkw, tier, src):
    from .drawpin import PIN
    from .sym import translate_tester
    out = CaseOut(name, confkw)
    t0 = time.time()
    try:
        m, hm = metas()[idx]
        hint = hm.hint
        conf = getattr(hm, 'conf', None)
        g = generate(hint, {}, conf=conf)
        if g.error is not None:
            out.skipped = f'{type(g.error).__name__}'
            return out
        try:
            ov = dict(conf.hint_overrides) if conf is not None and conf.hint_overrides else None
            node = refsem.parse(hint, tower=bool(conf is not None and conf.is_pep484_tower), overrides=ov)
            if not _in_grammar(node):
                node = None      # reference semantics is only claimed for the hint grammar of DESIGN section 3
        except Exception:
            node = None
        U = Universe(8)
        r = z3.Int('r')
        jobs = []
        for k, pm in enumerate(hm.piths_meta):
            if getattr(pm, 'is_pith_factory', False) or getattr(pm, 'is_context_manager', False):
                continue
            obj = pm.pith
            satisfied = type(pm).__name__ == 'PithSatisfiedMetadata'
            # reference semantics vs the table
            if node is not None:
                try:
                    conf = refsem.conforms(obj, node)
                    out.obligations += 1
                    if conf == satisfied or (conf and not satisfied and _only_shallowly_checkable(node)):
                        out.discharged += 1
                    else:
                        out.inconclusive.append(f'reference semantics says conforms={conf} for {obj!r:.60} against {hint!r:.60}, '
                                                f"beartype's table says satisfied={satisfied}")
                except Unsupported:
                    pass
                except Exception:
                    pass
            if g.tester is None:
                continue
            t = U.obj(f'p{k}')
            cs = U.abstraction(obj, t)
            if cs is None:
                continue
            for draw in (0, 1):
                try:
                    PIN.value = draw
                    real = bool(g.tester.func(obj))
                except Exception:
                    continue
                finally:
                    PIN.value = None
                try:
                    res = translate_tester(g.tester, U, t, r)
                except Unsupported:
                    break
                # pin the uninterpreted Is[...] predicates to what the test suite's callables answer
                from .engine_g import _subterms
                pins = []
                for app, f in list(U._preds.values()):
                    for sub, subobj in _subterms(U, t, obj):
                        try:
                            pins.append(app(sub) == bool(f(subobj)))
                        except Exception:
                            pass
                jobs.append((obj, draw, real, cs + pins, res))
        if jobs:
            s = z3.Solver()
            s.set('timeout', 10000)
            s.add(U.constraints())
            for obj, draw, real, cs, res in jobs:
                errs = z3.Or([sc.cond for sc in res.side]) if res.side else z3.BoolVal(False)
                s.push()
                s.add(*cs, *res.extra, r == draw, z3.Or(res.ret != real, errs))
                t1 = time.time()
                v = str(s.check())
                out.solver_s += time.time() - t1
                out.queries += 1
                s.pop()
                out.obligations += 1
                if v == 'unsat':
                    out.discharged += 1
                    out.validated += 1
                else:
                    out.inconclusive.append(f'encoding disagrees with the real tester ({real}) on test-suite pith {obj!r:.60} '
                                            f'for {hint!r:.60}, draw {draw} ({v})')
        out.nontrivial = bool(jobs)
        out.sample = {'test_table': m, 'hint': repr(hint)[:100], 'piths_validated': len(jobs)}
    except Exception:
        out.inconclusive.append('harness exception: ' + traceback.format_exc()[-500:])
    out.wall = time.time() - t0
    return out


def _in_grammar(node):
    """Is every class of the hint a builtin / collections(.abc) / typing class?  (User generics,
    protocols and IO classes of the test suite lie outside the reference semantics' grammar.)"""
    ok_mods = ('builtins', 'collections', 'collections.abc', 'typing', 'types', 'enum', 'abc', 'numbers')
    if node.kind == 'generic':
        return False
    if node.cls is not None and getattr(node.cls, '__module__', '') not in ok_mods:
        return False
    if node.cls is not None and node.cls.__name__ in ('IO', 'BinaryIO', 'TextIO'):
        return False
    if node.kind == 'type' and node.kids and node.kids[0].kind == 'class' and not _in_grammar(node.kids[0]):
        return False
    return all(_in_grammar(c) for c in node.kids)


def _only_shallowly_checkable(node):
    """Hints whose published meaning my reference semantics reads more liberally than the table
    (e.g. Callable[...] parameter lists, Iterator[T] items) are not held against the table."""
    k = node.kind
    if k == 'class' and node.cls.__module__ == 'collections.abc':
        return True
    return any(_only_shallowly_checkable(c) for c in node.kids)
