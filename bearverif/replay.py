"""Replay of a solver counterexample against the real public API, in a fresh interpreter.

    python -m bearverif.replay <file.json>

prints one JSON line {"reproduced": bool, "detail": ...}; exit 0 if reproduced, 3 if not.
The sampler draw is pinned *before* beartype is imported; nothing else is stubbed.
"""
from __future__ import annotations
import json
import sys
import warnings

from . import drawpin
from .drawpin import PIN


def find_hint(src):
    """Regenerate the hint from its grammar source description."""
    from . import grammar
    kind = src.get('gen', 'hint_set')
    if kind == 'hint_set':
        for name, h in grammar.hint_set(src.get('tier', 'quick'), src.get('seed', 0)):
            if name == src['name']:
                return h
        # the other tier may contain it
        for name, h in grammar.hint_set('thorough', src.get('seed', 0)):
            if name == src['name']:
                return h
    if kind == 'validators':
        from . import c12
        return c12.hint_by_name(src)
    if kind == 'c18':
        from . import c18
        return c18.hint_by_name(src)
    raise KeyError(f'hint {src!r} not found')


def run_program(program, obj_factory, hint, conf, draw):
    """Run one entry point on a fresh copy of the object.  Returns ('accept'|'reject'|'error', detail)."""
    from beartype import beartype
    from beartype.door import is_bearable, die_if_unbearable
    from beartype.roar import BeartypeCallHintViolation, BeartypeDoorHintViolation
    from .core import make_identity
    PIN.value = draw
    obj = obj_factory()
    try:
        with warnings.catch_warnings(record=True) as ws:
            warnings.simplefilter('always')
            if program == 'tester':
                ok = is_bearable(obj, hint, conf=conf)
                return ('accept' if ok else 'reject'), None
            if program == 'raiser':
                try:
                    die_if_unbearable(obj, hint, conf=conf)
                except BeartypeCallHintViolation as e:
                    return 'reject', type(e).__name__
                if any(issubclass(w.category, Warning) and 'violates' in str(w.message) for w in ws):
                    return 'reject', 'warned'
                return 'accept', None
            if program in ('param', 'return'):
                if program == 'param':
                    def f(x):
                        return None
                    f.__annotations__ = {'x': hint}
                    args = (obj,)
                else:
                    def f():
                        return obj
                    f.__annotations__ = {'return': hint}
                    args = ()
                dec = beartype(conf=conf)(f)
                try:
                    dec(*args)
                except BeartypeCallHintViolation as e:
                    return 'reject', type(e).__name__
                if any('violates' in str(w.message) for w in ws):
                    return 'reject', 'warned'
                return 'accept', None
    except Exception as e:
        return 'error', f'{type(e).__name__}: {e}'
    finally:
        PIN.value = None
    raise ValueError(program)


def replay(payload):
    from . import universe, refsem, grammar
    from .grammar import make_conf
    kind = payload['kind']
    if kind in REPLAYERS:
        return REPLAYERS[kind](payload)
    raise ValueError(f'unknown replay kind {kind}')


def _setup(payload):
    from . import universe, refsem
    from .grammar import make_conf
    hint = find_hint(payload['hint'])
    confkw = payload.get('confkw', {})
    conf = make_conf(confkw)
    tower = bool(confkw.get('is_pep484_tower'))
    node = refsem.parse(hint, tower=tower)
    factory = lambda: universe.build(payload['obj'])
    return hint, conf, node, factory


def r_false_alarm(p):
    """C01: the object conforms at full depth (independent concrete walk) yet an entry point
    rejects it, or raises a non-violation exception, under the pinned draw."""
    from . import refsem
    hint, conf, node, factory = _setup(p)
    if not refsem.conforms(factory(), node):
        return False, 'reified object does not conform to the hint (spurious model)'
    verdict, detail = run_program(p['program'], factory, hint, conf, p['draw'])
    if verdict in ('reject', 'error'):
        return True, f'{p["program"]} -> {verdict} {detail or ""} on conforming object {factory()!r}, draw {p["draw"]}'
    return False, f'{p["program"]} accepts'


def r_missed(p):
    """C02 clause 1: the object must be rejected whatever the draw, yet is accepted."""
    from . import refsem
    hint, conf, node, factory = _setup(p)
    if not refsem.must_reject(factory(), node):
        return False, 'reified object is not in MR[H] (spurious model)'
    verdict, detail = run_program(p['program'], factory, hint, conf, p['draw'])
    if verdict in ('accept', 'error'):
        return True, f'{p["program"]} -> {verdict} {detail or ""} on must-reject object {factory()!r}, draw {p["draw"]}'
    return False, f'{p["program"]} rejects'


def r_unsampled(p):
    """C02 clauses 2/3: accepted although the documented designated item violates."""
    from . import refsem
    hint, conf, node, factory = _setup(p)
    is_random = p.get('confkw', {}).get('is_random', True)
    if refsem.sampled_ok(factory(), node, p['draw'], is_random):
        return False, 'reified object satisfies S_r[H] (spurious model)'
    verdict, detail = run_program(p['program'], factory, hint, conf, p['draw'])
    if verdict in ('accept', 'error'):
        return True, f'{p["program"]} -> {verdict} {detail or ""} although the designated item violates: {factory()!r}, draw {p["draw"]}'
    return False, f'{p["program"]} rejects'


def r_unreached(p):
    """C02 clause 3: a sequence whose item i violates (in MR) is accepted under the draw r = i
    although the check samples sequences randomly."""
    from . import refsem
    hint, conf, node, factory = _setup(p)
    obj = factory()
    import collections.abc as cabc
    its = refsem._items(obj)
    i = p['draw']
    if not isinstance(obj, cabc.Sequence) or not (0 <= i < len(its)) or not refsem.must_reject(its[i], node.kids[0]):
        return False, 'reified object is not a sequence whose item r is in MR (spurious model)'
    verdict, detail = run_program(p['program'], factory, hint, conf, p['draw'])
    if verdict in ('accept', 'error'):
        return True, f'{p["program"]} -> {verdict} {detail or ""} although item {i} of {obj!r} violates and the draw is {i}'
    return False, f'{p["program"]} rejects'


def r_side(p):
    """A non-violation exception escapes an entry point."""
    hint, conf, node, factory = _setup(p)
    verdict, detail = run_program(p['program'], factory, hint, conf, p['draw'])
    if verdict == 'error':
        return True, f'{p["program"]} raised {detail} on {factory()!r}, draw {p["draw"]}'
    return False, f'{p["program"]} -> {verdict}'


def r_disagree(p):
    """C03 A: two entry points reach different verdicts for the same object and draw."""
    hint, conf, node, factory = _setup(p)
    res = {prog: run_program(prog, factory, hint, conf, p['draw'])[0] for prog in p['programs']}
    if len(set(res.values())) > 1:
        return True, f'entry points disagree {res} on {factory()!r}, draw {p["draw"]}'
    return False, f'all agree: {res}'


def r_cost(p):
    """C09: more item reads than the hint-derived constant, counted on instrumented containers."""
    from . import userclasses as uc
    hint, conf, node, factory = _setup(p)
    uc.READS.clear()
    obj = uc.counting(factory())     # builtin dict / list -> counting exact subclasses (same isinstance() answers)
    uc.READS.clear()
    verdict, detail = run_program(p['program'], lambda: obj, hint, conf, p['draw'])
    n = len(uc.READS)
    if n > p['bound_reads']:
        return True, f'{n} container reads > {p["bound_reads"]} ({uc.READS[:8]}...) on {obj!r}'
    # the model's container may have collapsed when reified (equal keys); the claim is about growth with size, so the
    # same shape padded to 40 entries per builtin dict / list is the concrete witness
    big = uc.counting(uc.enlarged(factory()))
    uc.READS.clear()
    run_program(p['program'], lambda: big, hint, conf, p['draw'])
    nb = len(uc.READS)
    if nb > p['bound_reads']:
        return True, (f'{nb} container reads > {p["bound_reads"]} ({uc.READS[:4]}...) on the object {obj!r} padded to 40 entries '
                      f'per container ({n} reads on the unpadded one)')
    return False, f'{n} reads <= {p["bound_reads"]}'


def r_effect(p):
    """C10: the check consumed / mutated its subject."""
    from . import universe
    hint, conf, node, factory = _setup(p)
    obj = factory()
    before = _snapshot(obj)
    run_program(p['program'], lambda: obj, hint, conf, p['draw'])
    after = _snapshot(obj)
    if before != after:
        return True, f'subject changed by {p["program"]}: {before!r} -> {after!r}'
    return False, 'subject unchanged'


def _snapshot(obj):
    import collections
    import itertools
    import types
    from . import userclasses as uc
    if isinstance(obj, (uc.UIterator, uc.USizedIterator)):
        return (type(obj).__name__, obj._k)
    if isinstance(obj, types.GeneratorType):
        return ('generator', obj.gi_frame is not None and obj.gi_frame.f_lasti)
    if type(obj) is type(iter([])):
        return ('list_iterator', obj.__length_hint__())
    if isinstance(obj, collections.defaultdict):
        return ('defaultdict', sorted(map(repr, obj.items())))
    if isinstance(obj, (list, dict, set, collections.deque)):
        return (type(obj).__name__, repr(obj))
    return repr(obj)


def r_rewrite_disagree(p):
    """C18: the option-rewritten check and the hand-rewritten hint disagree on an object/draw."""
    from . import universe, c18
    from .grammar import make_conf
    src = p['hint']
    hint = c18.hint_by_name(src)
    h2 = c18.rewritten_hint(hint, src)
    factory = lambda: universe.build(p['obj'])
    a = run_program(p['program'], factory, hint, make_conf(p['confkw']), p['draw'])
    b = run_program(p['program'], factory, h2, make_conf(p.get('base_confkw', {})), p['draw'])
    if a[0] != b[0]:
        return True, (f'{p["program"]}: {a[0]} under {p["confkw"]} but {b[0]} for the hand-rewritten hint {h2!r} '
                      f'on {factory()!r}, draw {p["draw"]}')
    return False, f'both {a[0]}'


def r_vale_disagree(p):
    """C12: the generated code and the boolean meaning of the validator expression disagree."""
    from . import refsem
    hint, conf, node, factory = _setup(p)
    obj = factory()
    want = refsem.conforms(obj, node)
    verdict, detail = run_program(p['program'], lambda: obj, hint, conf, p['draw'])
    got = {'accept': True, 'reject': False}.get(verdict)
    if got is None or got != want:
        return True, f'{p["program"]} -> {verdict} {detail or ""} but the boolean meaning is {want} on {obj!r}'
    return False, f'agree ({want})'


def r_c04(p):
    from . import c04
    return c04.replay_c04(p)


def r_xh(p):
    """Engine X counterexample: rebuild the harness module from its recorded source and run the
    harness on CrossHair's arguments on plain CPython."""
    import os
    import tempfile
    from .xh import harness
    d = tempfile.mkdtemp(prefix='bearxh')
    try:
        path = os.path.join(d, 'xh_replay_mod.py')
        with open(path, 'w') as f:
            f.write(p['source'])
        old = harness.BUILD
        harness.BUILD = d
        try:
            return harness.replay_counterexample(path, p['counterexample'])
        finally:
            harness.BUILD = old
    finally:
        import shutil
        shutil.rmtree(d, ignore_errors=True)


def r_c06(p):
    from . import c06
    return c06.replay_c06(p)


def r_c19(p):
    from . import c19
    return c19.replay_c19(p)


def r_c20(p):
    from . import c20
    return c20.replay_c20(p)


def r_c07(p):
    from . import c07
    return c07.replay_c07(p)


def r_c13(p):
    from . import c13
    return c13.replay_c13(p)


def r_c14(p):
    from . import c14
    return c14.replay_c14(p)


REPLAYERS = {
    'c14': r_c14,
    'c13': r_c13,
    'c07': r_c07,
    'c20': r_c20,
    'c20_cyclic': r_c20,
    'c19': r_c19,
    'c19_exception': r_c19,
    'c19_transitivity': r_c19,
    'c19_reflexivity': r_c19,
    'c19_eqhash': r_c19,
    'c06': r_c06,
    'c06re': lambda p: __import__('bearverif.c06re', fromlist=['x']).replay_c06re(p),
    'xh': r_xh,
    'c04': r_c04,
    'vale_disagree': r_vale_disagree,
    'rewrite_disagree': r_rewrite_disagree,
    'false_alarm': r_false_alarm,
    'missed': r_missed,
    'unsampled': r_unsampled,
    'unreached': r_unreached,
    'side': r_side,
    'disagree': r_disagree,
    'cost': r_cost,
    'effect': r_effect,
}


def replay_subprocess(path, timeout=120):
    """Run the replay in a fresh interpreter; (reproduced, detail)."""
    import os
    import subprocess
    env = dict(os.environ)
    root = os.path.dirname(os.path.dirname(os.path.abspath(__file__)))
    env['PYTHONPATH'] = root + os.pathsep + env.get('PYTHONPATH', '')
    try:
        out = subprocess.run([sys.executable, '-m', 'bearverif.replay', path], capture_output=True,
                             text=True, timeout=timeout, env=env, cwd=root)
    except subprocess.TimeoutExpired:
        return False, 'replay timed out'
    for line in out.stdout.splitlines()[::-1]:
        try:
            d = json.loads(line)
            return bool(d['reproduced']), d['detail']
        except Exception:
            continue
    return False, f'replay crashed: {out.stderr[-500:]}'


def main(argv):
    payload = json.load(open(argv[1]))
    for mod in payload.get('register', []):
        __import__(mod)
    try:
        ok, detail = replay(payload)
    except Exception as e:
        import traceback
        ok, detail = False, 'replay error: ' + traceback.format_exc()[-800:]
    print(json.dumps({'reproduced': ok, 'detail': detail}))
    return 0 if ok else 3


if __name__ == '__main__':
    sys.exit(main(sys.argv))
