"""C13 — decorating a class equals decorating its methods; no-op cases are identities (Engine G; partial).

*Decided by the solver*: for generated classes the wrappers obtained by decorating the class and by
decorating each member by hand are captured and their parameter and return guards proved equivalent
for all argument objects and draws (XOR unsat), including the implicit self / cls positions.
*Concrete side conditions* (observations, labelled as such in evidence): identity of the returned
class, idempotence, descriptor kinds, __wrapped__ / __name__ / __doc__ / signature, inherited
members left alone, identities for unannotated / @no_type_check / O0 callables.
"""
from __future__ import annotations
import inspect
import time
import traceback
import z3

from . import refsem
from .capture import recording
from .core import Generated, Encoding, Discharger, write_replay
from .engine_g import CaseOut, oblige
from .universe import Unsupported

HINT_SETS = [
    ('int', 'str'), ('List[int]', 'Optional[UA]'), ('Dict[str, int]', 'Tuple[int, ...]'), ('Union[int, UA]', 'Set[str]'),
    ('UA', 'List[UA]'), ('Sequence[int]', 'int'), ('Literal[1, "a"]', 'Iterable[int]'), ('Type[UA]', 'Mapping[str, UA]'),
    ('Optional[List[int]]', 'Dict[str, List[UA]]'), ('Tuple[int, str]', 'FrozenSet[int]'), ('float', 'complex'),
    ('Deque[int]', 'KeysView[str]'), ('Union[List[int], Tuple[str, ...]]', 'UB'), ('Collection[UA]', 'Set[Optional[int]]'),
    ('Annotated[int, IsEqual[1]]', 'Annotated[str, Is[P1]]'), ('UGenList[int]', 'Reversible[int]'),
]

HEADER = '''
from typing import *
from dataclasses import dataclass
import enum as _enum
from beartype import beartype, BeartypeConf
from bearverif.userclasses import UA, UB, UC, UGenList
from beartype.vale import Is, IsEqual
from bearverif.grammar import make_conf, P1, P2
import functools
CONF = make_conf({confkw!r})
D = beartype(conf=CONF)
PRE = {{}}


def counted(fn):
    """An ordinary functools.wraps decorator sitting underneath @beartype."""
    @functools.wraps(fn)
    def wrapper(*args, **kwargs):
        wrapper.calls += 1
        return fn(*args, **kwargs)
    wrapper.calls = 0
    wrapper.marker = 'm'
    PRE[fn.__qualname__] = wrapper
    return wrapper
'''

BODY = '''
class Base:
    def inherited(self, x: {h1}) -> {h2}:
        return x

{classdec}
class K(Base):
    """K doc"""
    {m}
    def __init__(self, v: {h1} = None) -> None:
        self._v = v
    {m}
    def plain(self, x: {h1}) -> {h2}:
        """plain doc"""
        return x
    {m}
    @counted
    {f}
    def pre(self, x: {h1}) -> {h2}:
        return x
    {m}
    @classmethod
    {f}
    def cm(cls, x: {h2}) -> {h1}:
        return x
    {m}
    @staticmethod
    {f}
    def sm(x: {h1}, y: {h2} = None) -> {h1}:
        return x
    {m}
    @property
    {f}
    def prop(self) -> {h2}:
        return self._v
    {ms}
    @prop.setter
    {f}
    def prop(self, v: {h2}) -> None:
        self._v = v
    {m}
    @property
    {f}
    def loose(self):
        return self._w
    {ms}
    @loose.setter
    {f}
    def loose(self, v: {h1}):
        self._w = v
    {m}
    @property
    {f}
    def gone(self):
        return self._g
    {ms}
    @gone.deleter
    {f}
    def gone(self) -> {h2}:
        return self._g
    def unannotated(self, x):
        return x
    {nesteddec}
    class Nested:
        {m}
        def inner(self, x: {h2}) -> {h1}:
            return x
        class Deep:
            {m}
            def dinner(self, x: {h1}) -> {h2}:
                return x
            {m}
            @classmethod
            {f}
            def dcm(cls, x: {h2}) -> {h2}:
                return x
        {m}
        @property
        {f}
        def nloose(self):
            return None
        {ms}
        @nloose.setter
        {f}
        def nloose(self, v: {h2}):
            pass

{classdec}
class Sub(K):
    """a subclass decorated on its own: only what it defines itself is wrapped"""
    {m}
    def plain(self, x: {h2}) -> {h1}:
        return x
    {m}
    def __call__(self, x: {h2}) -> {h2}:
        return x
    {m}
    @classmethod
    {f}
    def cm(cls, x: {h1}) -> {h2}:
        return x

{classdec}
class NT(NamedTuple):
    a: {h1}
    {m}
    def ntm(self, x: {h1}) -> {h2}:
        return x

{classdec}
class En(_enum.Enum):
    A = 1
    {m}
    def enm(self, x: {h2}) -> {h1}:
        return x
    {m}
    @classmethod
    {f}
    def encm(cls, x: {h1}) -> {h1}:
        return x

{classdec}
@dataclass
class DC:
    a: {h1}
    {m}
    def meth(self, x: {h1}) -> {h2}:
        return x
{post}
'''

# the __init__ that @dataclass generates is a method of the class too: the by-hand routes decorate it after the fact
POST = 'DC.__init__ = D(DC.__init__)\nNT.__new__ = D(NT.__new__)'
# only under a configuration that turns decoration-time exceptions into warnings: a member whose hint beartype
# cannot handle must leave its siblings (before *and* after it) decorated
BODY_BAD = '''
{classdec}
class WithBad:
    {m}
    def before_bad(self, x: {h1}) -> {h2}:
        return x
    {m}
    def bad(self, x: 42):
        return x
    {m}
    def after_bad(self, x: {h2}) -> {h1}:
        return x
    {m}
    @staticmethod
    {f}
    def after_bad_sm(x: {h1}) -> {h1}:
        return x
'''
MEMBERS = ['plain', 'cm', 'sm', 'prop', 'prop', 'inner', 'meth']
HAS_SELF = {'before_bad': True, 'after_bad': True, 'after_bad_sm': False, 'dinner': True, 'dcm': True, 'ntm': True, 'enm': True, 'encm': True, '__new__': True, 'pre': True, '__init__': True, '__call__': True, 'plain': True, 'cm': True, 'sm': False, 'prop': True, 'loose': True, 'gone': True, 'inner': True, 'nloose': True, 'meth': True}


def source(h1, h2, confkw, route):
    """route 'class': @D on the classes; route 'members': @D on every member the class defines; route
    'functions': @D on the plain functions underneath the descriptors."""
    body = BODY + (BODY_BAD if confkw.get('warning_cls_on_decorator_exception') else '')
    if route == 'class':
        return HEADER.format(confkw=confkw) + body.format(h1=h1, h2=h2, classdec='@D', m='', ms='', f='', nesteddec='', post='')
    if route == 'functions':
        # @D directly on the plain functions underneath the descriptors (and on plain methods)
        body = (body.replace('    {m}\n    def ', '    @D\n    def ').replace('        {m}\n        def ', '        @D\n        def ')
                .replace('            {m}\n            def ', '            @D\n            def '))
        return HEADER.format(confkw=confkw) + body.format(h1=h1, h2=h2, classdec='', m='', ms='', f='@D', nesteddec='', post=POST)
    return HEADER.format(confkw=confkw) + body.format(h1=h1, h2=h2, classdec='', m='@D', ms='@D', f='', nesteddec='', post=POST)


def cases(tier, seed):
    out = []
    confs = ([{}, {'is_random': False}, {'warning_cls_on_decorator_exception': 'VerifWarning'}] if tier == 'quick' else
             [{}, {'is_random': False}, {'is_pep484_tower': True}, {'violation_type': 'VerifError'}, {'violation_type': 'VerifWarning'},
              {'strategy': 'On'}, {'warning_cls_on_decorator_exception': 'VerifWarning'},
              {'warning_cls_on_decorator_exception': 'VerifWarning', 'is_random': False}])
    sets = HINT_SETS if tier != 'quick' else HINT_SETS[:5]
    for h1, h2 in sets:
        for ckw in confs:
            name = f'{h1}|{h2}'
            out.append((name, {'h1': h1, 'h2': h2}, ckw, {'gen': 'c13', 'h1': h1, 'h2': h2}))
    return out


def load(src):
    ns = {'__name__': 'bearverif.c13_generated'}
    import warnings
    with recording() as recs, warnings.catch_warnings():
        warnings.simplefilter('ignore')
        exec(compile(src, '<c13 class>', 'exec', dont_inherit=True), ns)
    return ns, recs


def by_name(recs):
    d = {}
    for r in recs:
        d.setdefault(r.name, []).append(r)
    return d


def run_case(prop, name, spec, confkw, tier, src):
    out = CaseOut(name, confkw)
    t0 = time.time()
    try:
        h1, h2 = spec['h1'], spec['h2']
        nsA, recA = load(source(h1, h2, confkw, 'class'))
        A = by_name(recA)
        anynode = refsem.Node('any')
        for route in ('members', 'functions'):
            nsB, recB = load(source(h1, h2, confkw, route))
            B = by_name(recB)
            problems = concrete_side_conditions(nsA, nsB, A, B, route)
            out.side = {'checked': 14, 'problems': problems}
            out.obligations += 1
            if problems:
                out.findings.append({'kind': 'c13_side', 'program': 'decoration', 'label': '; '.join(problems)[:400],
                                     'replay': write_replay('C13', {'property': 'C13', 'kind': 'c13', 'hint': dict(src, route=route), 'confkw': confkw,
                                                                   'program': 'side'}),
                                     'detail': '; '.join(problems)[:600], 'hint': name, 'confkw': confkw})
            else:
                out.discharged += 1
            for mname in ('before_bad', 'after_bad', 'after_bad_sm', 'dinner', 'dcm', 'ntm', 'enm', 'encm', '__new__', 'pre', '__init__', '__call__', 'plain', 'cm', 'sm', 'prop', 'loose', 'gone', 'inner', 'nloose', 'meth'):
                ra, rb = A.get(mname, []), B.get(mname, [])
                if len(ra) != len(rb):
                    out.findings.append({'kind': 'c13_side', 'program': mname,
                                         'label': f'{len(ra)} wrapper(s) for {mname} when decorating the class, {len(rb)} when decorating the {route}',
                                         'replay': write_replay('C13', {'property': 'C13', 'kind': 'c13', 'hint': dict(src, route=route), 'confkw': confkw, 'program': 'side'}),
                                         'detail': 'wrapper counts differ', 'hint': name, 'confkw': confkw})
                    continue
                for k, (wa, wb) in enumerate(zip(ra, rb)):
                    ca, cb = wa.scope.get('__beartype_conf'), wb.scope.get('__beartype_conf')
                    if ca is not cb:
                        out.findings.append({'kind': 'c13_side', 'program': mname,
                                             'label': f'{mname}[{k}]: the wrapper generated by class decoration carries configuration {ca!r}, the {route} route {cb!r}',
                                             'replay': write_replay('C13', {'property': 'C13', 'kind': 'c13', 'hint': dict(src, route=route), 'confkw': confkw, 'program': 'side'}),
                                             'detail': 'configuration objects differ', 'hint': name, 'confkw': confkw})
                    ga, gb = Generated(), Generated()
                    for g, w in ((ga, wa), (gb, wb)):
                        g.hint, g.confkw, g.wrapper = None, confkw, w
                    first = Encoding(ga, 3, node=anynode)
                    lead = ()
                    if HAS_SELF[mname]:
                        selfobj = first.U.obj('selfobj')
                        first = Encoding(ga, 3, node=anynode, share=first, leading=(selfobj,))
                        lead = (selfobj,)
                    second = Encoding(gb, None, node=anynode, share=first, leading=lead)
                    first.assume.extend(second.assume)
                    for r in second.results.values():
                        first.results[id(r)] = r
                    d = Discharger(first)
                    for prog in ('param', 'return'):
                        pre = [first.guards['param'], second.guards['param']] if prog == 'return' else []
                        oblige(out, d, first, 'C13', f'{mname}[{k}]: {prog} guard differs between class decoration and decoration of the {route}',
                               pre + [z3.Xor(first.guards[prog], second.guards[prog])], ('c13', prog),
                               dict(src, member=mname, index=k, route=route), extra={'confkw': confkw})
                    out.queries += d.stats['queries']
                    out.solver_s += d.stats['solver_s']
        out.nontrivial = True
        out.sample = {'class_hints': [h1, h2], 'conf': confkw, 'members_compared': ['plain', 'cm', 'sm', 'prop getter', 'prop setter', 'loose setter (unannotated getter)', 'gone deleter (unannotated getter)', 'Nested.inner', 'Nested.nloose setter', 'DC.meth'],
                      'routes_compared_with_class_decoration': ['@D on each member (descriptor level)', '@D on each plain function underneath its descriptor'],
                      'obligation': 'unsat(guard_classroute(x,r) xor guard_memberroute(x,r)) for parameter and return of every member'}
    except Unsupported as e:
        out.inconclusive.append(f'unsupported: {e}')
    except Exception:
        out.inconclusive.append('harness exception: ' + traceback.format_exc()[-700:])
    out.wall = time.time() - t0
    return out


def concrete_side_conditions(nsA, nsB, A, B, routeB='members'):
    """Observations on the real objects; returns a list of problems (empty = all hold)."""
    from beartype import beartype, BeartypeConf, BeartypeStrategy
    import typing
    P = []
    K, D = nsA['K'], nsA['D']
    # the class route returns the same class object; idempotence
    if D(K) is not K:
        P.append('decorating an already decorated class does not return it unchanged')
    for nm in ('plain', 'sm', 'cm'):
        w = K.__dict__[nm]
        f = w.__func__ if isinstance(w, (classmethod, staticmethod)) else w
        if D(f) is not f:
            P.append(f'decorating the existing wrapper of {nm} again returns a different object')
    # decorating the already decorated class again under *another* configuration changes nothing either
    other = BeartypeConf(is_random=False, violation_type=KeyError)
    funcs_before = {nm: (w.__func__ if isinstance(w, (classmethod, staticmethod)) else w)
                    for nm, w in K.__dict__.items() if nm in ('plain', 'sm', 'cm', '__init__')}
    if beartype(conf=other)(K) is not K:
        P.append('decorating a decorated class under another configuration does not return it')
    for nm, f0 in funcs_before.items():
        w = K.__dict__[nm]
        f1 = w.__func__ if isinstance(w, (classmethod, staticmethod)) else w
        if f1 is not f0:
            P.append(f'decorating a decorated class under another configuration re-wrapped {nm}')
    # descriptor kinds
    for ns, route in ((nsA, 'class'), (nsB, routeB)):
        k = ns['K']
        kinds = {'cm': classmethod, 'sm': staticmethod, 'prop': property}
        for nm, t in kinds.items():
            if type(k.__dict__[nm]) is not t:
                P.append(f'{route} route: {nm} is a {type(k.__dict__[nm]).__name__}, not a {t.__name__}')
        f = k.__dict__['plain']
        if getattr(f, '__wrapped__', None) is None or f.__name__ != 'plain' or f.__doc__ != 'plain doc':
            P.append(f'{route} route: plain lost __wrapped__ / __name__ / __doc__')
        elif str(inspect.signature(f)) != str(inspect.signature(f.__wrapped__)):
            P.append(f'{route} route: signature of plain changed')
        if 'inherited' in k.__dict__ or k.inherited is not ns['Base'].inherited:
            P.append(f'{route} route: inherited member was touched')
        if k.__dict__['unannotated'].__name__ != 'unannotated' or hasattr(k.__dict__['unannotated'], '__wrapped__'):
            P.append(f'{route} route: unannotated method was wrapped')
        if k.__doc__ != 'K doc':
            P.append(f'{route} route: class docstring changed')
        if route in ('class', 'members'):
            # a member already wrapped by a functools.wraps decorator: beartype's wrapper exposes
            # *that object* as __wrapped__ and carries its attributes over
            w, orig = k.__dict__['pre'], ns['PRE']['K.pre']
            if getattr(w, '__wrapped__', None) is not orig:
                P.append(f'{route} route: pre.__wrapped__ is not the object that was decorated')
            if getattr(w, 'marker', None) != 'm' or getattr(w, 'calls', None) != 0:
                P.append(f'{route} route: attributes of the decorated object were not carried over to the wrapper of pre')
            if w.__name__ != 'pre' or str(inspect.signature(w)) != str(inspect.signature(orig)):
                P.append(f'{route} route: name / signature of pre changed')

    # identities
    def plainf(x):
        return x
    if beartype(plainf) is not plainf:
        P.append('decorating an unannotated callable is not the identity')

    @typing.no_type_check
    def ntc(x: int) -> int:
        return x
    if beartype(ntc) is not ntc:
        P.append('decorating a @no_type_check callable is not the identity')

    def ann(x: int) -> int:
        return x
    if beartype(conf=BeartypeConf(strategy=BeartypeStrategy.O0))(ann) is not ann:
        P.append('decorating under the O0 strategy is not the identity')
    # the three public spellings of "decorate with a configuration" are one operation
    o0 = BeartypeConf(strategy=BeartypeStrategy.O0)
    if beartype(ann, conf=o0) is not ann:
        P.append('beartype(obj, conf=O0) -- the single-call form -- is not the identity')

    class KO0:
        def m(self, x: int) -> int:
            return x
    m0 = KO0.__dict__['m']
    if beartype(KO0, conf=o0) is not KO0 or KO0.__dict__['m'] is not m0:
        P.append('beartype(cls, conf=O0) -- the single-call form -- wrapped a member or returned another class')
    return P



def replay_c13(p):
    from . import universe
    from .drawpin import PIN
    from beartype.roar import BeartypeCallHintViolation
    src = p['hint']
    confkw = p.get('confkw', {})
    nsA, rA = load(source(src['h1'], src['h2'], confkw, 'class'))
    nsB, rB = load(source(src['h1'], src['h2'], confkw, src.get('route', 'members')))
    if p.get('program') == 'side':
        probs = concrete_side_conditions(nsA, nsB, by_name(rA), by_name(rB), src.get('route', 'members'))
        A, B = by_name(rA), by_name(rB)
        for mname in ('before_bad', 'after_bad', 'after_bad_sm', 'dinner', 'dcm', 'ntm', 'enm', 'encm', '__new__', 'pre', '__init__', '__call__', 'plain', 'cm', 'sm', 'prop', 'loose', 'gone', 'inner', 'nloose', 'meth'):
            if len(A.get(mname, [])) != len(B.get(mname, [])):
                probs.append(f'{len(A.get(mname, []))} checking wrapper(s) generated for {mname} when decorating the class, '
                             f'{len(B.get(mname, []))} when decorating the {src.get("route", "members")}')
            for wa, wb in zip(A.get(mname, []), B.get(mname, [])):
                if wa.scope.get('__beartype_conf') is not wb.scope.get('__beartype_conf'):
                    probs.append(f'{mname}: the two routes carry different configuration objects')
        return bool(probs), '; '.join(probs) or 'all side conditions hold'
    m = src['member']

    def call(ns):
        obj = universe.build(p['obj'])
        K = ns['K']
        inst = K()
        PIN.value = p['draw']
        try:
            try:
                idx = src.get('index', 0)
                if m == 'plain':
                    (inst if idx == 0 else ns['Sub']()).plain(obj)
                elif m == 'pre':
                    inst.pre(obj)
                elif m in ('before_bad', 'after_bad'):
                    getattr(ns['WithBad'](), m)(obj)
                elif m == 'after_bad_sm':
                    ns['WithBad'].after_bad_sm(obj)
                elif m == 'dinner':
                    K.Nested.Deep().dinner(obj)
                elif m == 'dcm':
                    K.Nested.Deep.dcm(obj)
                elif m == 'ntm':
                    tuple.__new__(ns['NT'], (None,)).ntm(obj)
                elif m == 'enm':
                    ns['En'].A.enm(obj)
                elif m == 'encm':
                    ns['En'].encm(obj)
                elif m == '__new__':
                    ns['NT'](obj)
                elif m == '__init__':
                    K(obj) if idx == 0 else ns['DC'](obj)
                elif m == '__call__':
                    ns['Sub']()(obj)
                elif m == 'cm':
                    (K if idx == 0 else ns['Sub']).cm(obj)
                elif m == 'sm':
                    K.sm(obj)
                elif m == 'inner':
                    K.Nested().inner(obj)
                elif m == 'meth':
                    ns['DC'].meth(object.__new__(ns['DC']), obj)
                elif m == 'loose':
                    inst.loose = obj
                elif m == 'nloose':
                    K.Nested().nloose = obj
                elif m == 'gone':
                    inst._g = obj
                    del inst.gone
                elif m == 'prop':
                    if src.get('index', 0) == 0:
                        inst._v = obj
                        inst.prop
                    else:
                        inst.prop = obj
                return 'accept'
            except BeartypeCallHintViolation as e:
                return 'reject:' + type(e).__name__
            except Exception as e:
                return 'error:' + type(e).__name__
        finally:
            PIN.value = None
    a, b = call(nsA), call(nsB)
    if a != b:
        return True, f'{m}: class decoration {a}, {src.get("route", "members")} decoration {b}, object {universe.build(p["obj"])!r}, draw {p["draw"]}'
    return False, f'both {a}'
