"""bearverif — solver-based checks of beartype's semantic properties (see /verif/DESIGN.md)."""
import os, sys
REPO = os.environ.get('VERIF_REPO', '/repo')
if REPO not in sys.path:
    sys.path.insert(0, REPO)
from . import drawpin  # noqa: E402  (pins random.getrandbits before beartype is imported)
