"""Engine G obligations per property, over (hint, conf) cases, sharded over processes."""
from __future__ import annotations
import json
import os
import time
import traceback
import z3

from .core import (Generated, generate, Encoding, Discharger, write_replay, PROGRAMS)
from .universe import Unsupported
from . import refsem


class CaseOut:
    """Picklable result of one (hint, conf) case."""

    def __init__(self, name, confkw):
        self.name, self.confkw = name, confkw
        self.skipped = None
        self.inconclusive = []          # reasons (Unsupported constructs, unknown on deciding query)
        self.obligations = 0
        self.discharged = 0
        self.queries = 0
        self.unbounded = {'unsat': 0, 'sat': 0, 'unknown': 0}
        self.solver_s = 0.0
        self.findings = []              # dicts: kind, program, payload, replay path, reproduced, detail
        self.nontrivial = False
        self.sample = None
        self.observations = []
        self.wall = 0.0
        self.validated = 0


def model_payload(enc: Encoding, m, prop, kind, program, src, extra=None):
    spec = enc.U.reify(m, enc.x)
    draw = m.eval(enc.r, model_completion=True).as_long()
    p = {'property': prop, 'kind': kind, 'program': program, 'hint': src, 'confkw': enc.g.confkw,
         'obj': spec, 'draw': draw}
    if extra:
        p.update(extra)
    return p


def oblige(out: CaseOut, d: Discharger, enc: Encoding, prop, label, formulas, on_sat, src, extra=None,
           retries=4, deciding=True):
    """Discharge one obligation (`base ∧ formulas` must be unsat).  On sat: reify, replay against the
    real API in a fresh interpreter; a model that does not reproduce is blocked and the query
    retried; if no model reproduces the case is a harness error (inconclusive), never a pass."""
    from .replay import replay_subprocess
    out.obligations += 1
    blocks = []
    if out.findings:
        # a violation of this case is already confirmed: do not spend replays on its siblings
        return False
    for attempt in range(retries + 1):
        res, m = d.check(*formulas, *blocks)
        if res == 'unsat':
            if attempt == 0:
                out.discharged += 1
            else:
                out.inconclusive.append(f'{label}: {attempt} model(s) did not reproduce, then unsat '
                                        f'(encoding admits objects the replay cannot build)')
            return True
        if res == 'unknown':
            if deciding:
                out.inconclusive.append(f'{label}: solver unknown')
            return False
        kind, program = on_sat
        payload = model_payload(enc, m, prop, kind, program, src, extra)
        path = write_replay(prop, payload)
        ok, detail = replay_subprocess(path)
        if ok:
            out.findings.append({'kind': kind, 'program': program, 'label': label, 'replay': path,
                                 'detail': detail, 'hint': out.name, 'confkw': out.confkw})
            return False
        if not os.environ.get('BEARVERIF_KEEP'):
            try:
                os.unlink(path)
            except OSError:
                pass
        U = enc.U
        cx = m.eval(U.cls(enc.x), model_completion=True)
        lx = m.eval(U.len(enc.x), model_completion=True)
        rx = m.eval(enc.r, model_completion=True)
        blocks.append(z3.Or(U.cls(enc.x) != cx, U.len(enc.x) != lx, enc.r != rx))
        last = detail
    out.inconclusive.append(f'{label}: no model reproduced after {retries + 1} attempts ({last})')
    return False


BOUND_DELTA = 0      # raised by run_case when a deciding bounded query came back `unknown`


def bound_for(tier, node):
    d = depth(node)
    if tier == 'quick':
        b = 4 if d <= 2 else 3
    else:
        b = 6 if d <= 1 else (4 if d <= 2 else 3)
    return max(2, b - BOUND_DELTA)


def depth(n):
    return 1 + max([depth(k) for k in n.kids], default=0) if n.kids else 0


def _unbounded(out, g, build, timeout_ms=2500):
    """Unbounded-length mode: only `unsat` is trusted; anything else is recorded, never a failure."""
    try:
        encU = Encoding(g, None)
        dU = Discharger(encU, timeout_ms)
        for formulas in build(encU):
            res, _ = dU.check(*formulas)
            out.unbounded[res] += 1
        out.queries += dU.stats['queries']
        out.solver_s += dU.stats['solver_s']
    except Unsupported as e:
        out.unbounded['unknown'] += 1


# --------------------------------------------------------------------------- translator validation

_POOL = None


def sample_pool():
    """Concrete objects of the universe used to validate translator + universe against the
    real generated functions on every run (Serval-style)."""
    global _POOL
    if _POOL is None:
        import collections
        from . import userclasses as uc
        _POOL = [
            0, 1, True, False, 2.5, 1.0, 3 + 0j, 'a', '', 'ab', 'zz', b'a', b'', None, object(), uc.ufunc,
            uc.UA(), uc.UB(), uc.UC(), uc.UImpl(), uc.UH(n=1), uc.UH(m=uc.UH(n=1)), uc.EColor.R, uc.ENum.ONE,
            int, str, uc.UA, uc.UB, type, uc.USeq, uc.UProto,
            [], [1], [1, 'a'], ['a', 1], [None, 'a'], [[1], ['a']], [[], [1]], [1.5, 2],
            (), (1,), (1, 'a'), ('a', 1), (1, 'a', None), ((1,), ('a',)), (1, 2),
            set(), {1}, {'a'}, frozenset(), frozenset({1}), frozenset({'a', None}),
            {}, {'a': 1}, {1: 'a'}, {'a': [1]}, {'a': ['a']}, {1: 1, 'a': 'a'}, {None: None},
            collections.deque(), collections.deque([1, 'a']), collections.deque(['a']),
            collections.defaultdict(int), collections.defaultdict(int, {'a': 1}),
            collections.OrderedDict(), collections.OrderedDict({'a': 1}), collections.OrderedDict({1: {1}}),
            collections.Counter(), collections.Counter({'a': 1}), collections.Counter({1: 2}),
            collections.ChainMap(), collections.ChainMap({'a': 1}), collections.ChainMap({1: 'a'}),
            {}.keys(), {'a': 1}.keys(), {1: 'a'}.keys(), {}.values(), {'a': 1}.values(), {1: 'a'}.values(),
            {}.items(), {'a': 1}.items(), {1: 'a'}.items(),
            range(0), range(3),
            uc.USeq(), uc.USeq([1]), uc.USeq(['a', 1]), uc.UMutSeq([1]), uc.UMutSeq(['a']),
            uc.USet(), uc.USet([1]), uc.USet(['a']), uc.UColl([1]), uc.UColl(['a']), uc.UColl(),
            uc.UMap(), uc.UMap({'a': 1}), uc.UMap({1: 'a'}),
            uc.UIterable([1]), uc.UIterable(['a']), uc.UContainer([1]), uc.UReversible(['a']),
            uc.UGenList(), uc.UGenList([1]), uc.UGenList(['a']), uc.UGenList([uc.UGenList([1])]), uc.UGenPlain(), uc.UPatchSeq([1]), uc.UPatchMap({'a': 1}), uc.UIntList(), uc.UIntList([1]), uc.UIntList(['a']), uc.UTagged(['a']), uc.UTagged([1]), uc.UGenDict(), uc.UGenDict({'a': 1}), uc.UGenDict({1: 'a'}),
        ]
    return _POOL


def validate_translation(out, g, enc, d, count=10):
    """Push concrete objects through both the real generated tester and its encoding
    (own universe and solver: every term is created before the solver is built)."""
    from .drawpin import PIN
    from .sym import translate_tester
    from .universe import Universe
    if g.tester is None:
        return
    pool = sample_pool()
    U = Universe(8)
    r = z3.Int('r')
    h = abs(hash(out.name))
    jobs = []
    for j in range(count):
        obj = pool[(h + j * 7) % len(pool)]
        draw = (h >> 3) % 7 if j % 2 else 0
        t = U.obj(f'v{j}')
        abs_cs = U.abstraction(obj, t)
        if abs_cs is None:
            continue
        try:
            PIN.value = draw
            real = bool(g.tester.func(obj))
        except Exception as e:
            real = ('error', type(e).__name__)
        finally:
            PIN.value = None
        res = translate_tester(g.tester, U, t, r)
        # pin the uninterpreted Is[...] predicates to what the real callables answer
        if isinstance(obj, bytes):
            for sub, subobj in list(_subterms(U, t, obj))[1:]:
                abs_cs += [U.cls(sub) == U.K['int'], U.ival(sub) == int(subobj)]
        for app, f in list(U._preds.values()):
            for sub, subobj in _subterms(U, t, obj):
                try:
                    abs_cs.append(app(sub) == bool(f(subobj)))
                except Exception:
                    pass
        jobs.append((obj, draw, real, abs_cs, res))
    s = z3.Solver()
    s.set('timeout', 10000)
    s.add(U.constraints())
    checked = 0
    for obj, draw, real, abs_cs, res in jobs:
        errs = z3.Or([sc.cond for sc in res.side]) if res.side else z3.BoolVal(False)
        s.push()
        s.add(*abs_cs, *res.extra, r == draw)
        s.add(z3.Or(res.ret != real, errs) if real in (True, False) else z3.Not(errs))
        t0 = time.time()
        r1 = str(s.check())
        out.solver_s += time.time() - t0
        out.queries += 1
        s.pop()
        out.obligations += 1
        if r1 == 'unsat':
            out.discharged += 1
            checked += 1
        else:
            out.inconclusive.append(f'translator validation: real tester gives {real} on {obj!r} (draw {draw}) '
                                    f'but the encoding admits otherwise ({r1})')
    out.validated = checked


def _subterms(U, t, obj, depth=3):
    """(term, real sub-object) pairs reachable from (t, obj) the way abstraction() walks."""
    yield t, obj
    if isinstance(obj, bytes) and depth > 0:
        # iterating bytes yields ints: the items are objects of the universe too
        for i, it in enumerate(obj[:4]):
            yield U.item(t, z3.IntVal(i)), it
        return
    if depth <= 0 or isinstance(obj, (str, bytes, type)):
        return
    from . import universe as un
    name = un.NAME_OF.get(type(obj))
    if name is None:
        return
    k = un.KIND[name]
    if k in ('seq', 'coll', 'iterable', 'range'):
        src = obj._i if hasattr(obj, '_i') else list(obj)
        for i, it in enumerate(src):
            yield from _subterms(U, U.item(t, z3.IntVal(i)), it, depth - 1)
    elif k == 'map':
        src = obj._d if hasattr(obj, '_d') else obj
        for i, key in enumerate(list(src)):
            kt = U.item(t, z3.IntVal(i))
            yield from _subterms(U, kt, key, depth - 1)
            yield from _subterms(U, U.val(t, kt), src[key], depth - 1)
    elif name in ('UH', 'UA', 'UB'):
        for ai, an in enumerate(un.ATTR_NAMES):
            if hasattr(obj, an):
                yield from _subterms(U, U.attr(t, ai), getattr(obj, an), depth - 1)


# --------------------------------------------------------------------------- C01

def c01(g, tier, out, src):
    node = refsem.parse(g.hint, tower=bool(g.confkw.get('is_pep484_tower')))
    enc = Encoding(g, bound_for(tier, node), node=node)
    d = Discharger(enc)
    full = enc.full()
    res, _ = d.check(full)
    out.nontrivial = (res == 'sat') and g.tester is not None
    if res == 'unsat':
        out.observations.append('hint uninhabited in the universe: obligations vacuous')
    # reachability twin: with the guard replaced by False the query must be sat
    for prog in PROGRAMS:
        oblige(out, d, enc, 'C01', f'{prog}: [[H]](x) and not guard(x,r)', [full, z3.Not(enc.guards[prog])],
               ('false_alarm', prog), src)
        for sc in enc.side[prog]:
            oblige(out, d, enc, 'C01', f'{prog}: [[H]](x) and {sc.kind} reachable at `{sc.where}`',
                   [full, sc.cond], ('side', prog), src)
    validate_translation(out, g, enc, d)
    out.queries += d.stats['queries']
    out.solver_s += d.stats['solver_s']
    out.sample = {'hint': out.name, 'conf': out.confkw, 'bound_len': enc.U.bound,
                  'obligation': 'unsat([[H]](x) & 0<=r<2^32 & ~code(x,r)) for tester/raiser/param/return + side conditions',
                  'tester_code': (g.tester.code.split('return', 1)[-1][:300] if g.tester else 'True (ignorable hint)')}

    def build(encU):
        fullU = encU.full()
        return [[fullU, z3.Not(encU.guards[p])] for p in PROGRAMS]
    _unbounded(out, g, build)


# --------------------------------------------------------------------------- C02

def c02(g, tier, out, src):
    node = refsem.parse(g.hint, tower=bool(g.confkw.get('is_pep484_tower')))
    enc = Encoding(g, bound_for(tier, node), node=node)
    d = Discharger(enc)
    U, x, r = enc.U, enc.x, enc.r
    mr = enc.mr()
    srr = enc.sampled()
    full = enc.full()
    res, _ = d.check(mr)
    out.nontrivial = (res == 'sat')
    # spec-level lemmas (independent of /repo) so that 1-3 cannot be vacuous
    for label, fs in (('lemma [[H]] => S_r', [full, z3.Not(srr)]),
                      ('lemma MR => not S_r', [mr, srr]),
                      ('lemma MR => not [[H]]', [mr, full])):
        out.obligations += 1
        rr, _m = d.check(*fs)
        if rr == 'unsat':
            out.discharged += 1
        else:
            out.inconclusive.append(f'{label}: {rr} (reference semantics inconsistent for this hint)')
    for prog in PROGRAMS:
        gd = enc.guards[prog]
        if prog == 'return':
            # the return section only runs when the parameter section passed
            gd = z3.And(enc.guards['param'], gd)
        oblige(out, d, enc, 'C02', f'{prog}: MR[H](x) and guard(x,r)', [mr, gd], ('missed', prog), src)
        oblige(out, d, enc, 'C02', f'{prog}: guard(x,r) and not S_r[H](x)', [gd, z3.Not(srr)],
               ('unsampled', prog), src)
    # clause 3: every index of a sequence is reachable under random sampling; index 0 otherwise.
    # "Under random sampling" is read operationally: the generated guard mentions the draw.
    if node.kind in ('seq', 'coll', 'quasi'):
        item_mr = lambda t: enc.sem.mr(node.kids[0], t)
        seq_abc = refsem.cabc.Sequence
        # ... at this level: some positional read of x itself uses an index computed from the draw
        uses_draw = any(e.kind == 'read' and e.index is not None and e.subject.get_id() == x.get_id()
                        and _mentions_var(e.index, r)
                        for res_ in enc.results.values() for e in res_.events)
        if uses_draw:
            i = z3.Int('i_reach')
            # witness draw r := i
            f = [U.isinstance(x, node.cls), U.isinstance(x, seq_abc), i >= 0, i < U.len(x), i < 2 ** 32,
                 item_mr(U.item_of(x, i)), r == i]
            for prog in PROGRAMS:
                gd = enc.guards[prog] if prog != 'return' else z3.And(enc.guards['param'], enc.guards[prog])
                oblige(out, d, enc, 'C02', f'{prog}: sequence item i in MR, draw r=i, yet accepted', f + [gd],
                       ('unreached', prog), src)
        elif node.kind == 'seq':
            f = [U.isinstance(x, node.cls), U.len(x) > 0, item_mr(U.item_of(x, 0))]
            for prog in PROGRAMS:
                gd = enc.guards[prog] if prog != 'return' else z3.And(enc.guards['param'], enc.guards[prog])
                oblige(out, d, enc, 'C02', f'{prog}: item 0 in MR yet accepted (no random sampling)', f + [gd],
                       ('unsampled', prog), src)
            # documentation witness: a violation only at i>0 is accepted
            if g.tester is not None and enc.U.bound and enc.U.bound >= 2:
                rr, _m = d.check(U.isinstance(x, node.cls), U.len(x) == 2, item_mr(U.item_of(x, 1)),
                                 enc.sem.full(node.kids[0], U.item_of(x, 0)), enc.guards['tester'])
                out.observations.append(f'is_random=False: violation only at index 1 accepted: {rr}')
    out.queries += d.stats['queries']
    out.solver_s += d.stats['solver_s']
    out.sample = {'hint': out.name, 'conf': out.confkw, 'bound_len': enc.U.bound,
                  'obligations': ['unsat(MR[H](x) & code(x,r))', 'unsat(code(x,r) & ~S_r[H](x))',
                                  'unsat(item i in MR & r=i & code) (sequences)']}

    def build(encU):
        mrU, sU = encU.mr(), encU.sampled()
        fs = []
        for p in PROGRAMS:
            gd = encU.guards[p] if p != 'return' else z3.And(encU.guards['param'], encU.guards[p])
            fs.append([mrU, gd])
            fs.append([gd, z3.Not(sU)])
        return fs
    _unbounded(out, g, build)


def _mentions_var(formula, var):
    """Does z3 term ``formula`` contain the constant ``var``?"""
    seen = set()
    stack = [formula]
    vid = var.get_id()
    while stack:
        t = stack.pop()
        tid = t.get_id()
        if tid in seen:
            continue
        seen.add(tid)
        if tid == vid:
            return True
        stack.extend(t.children())
    return False


# --------------------------------------------------------------------------- C03 A

def c03a(g, tier, out, src):
    """Entry points agree (guards pairwise equivalent) and a rejection is exactly one
    get_violation call with the same draw followed by raise/warn of that object."""
    node = refsem.parse(g.hint, tower=bool(g.confkw.get('is_pep484_tower')))
    enc = Encoding(g, bound_for(tier, node), node=node)
    d = Discharger(enc)
    out.nontrivial = g.tester is not None
    base = enc.guards['tester']
    for prog in ('raiser', 'param', 'return'):
        gd = enc.guards[prog]
        if prog == 'return':
            # compare on the region where the return section is reached
            oblige(out, d, enc, 'C03', f'tester xor {prog} guard', [enc.guards['param'], z3.Xor(base, gd)],
                   ('disagree', None), src, extra={'programs': ['tester', prog]})
        else:
            oblige(out, d, enc, 'C03', f'tester xor {prog} guard', [z3.Xor(base, gd)],
                   ('disagree', None), src, extra={'programs': ['tester', prog]})
    # statement structure of raiser and wrapper
    for pname in ('raiser', 'wrapper'):
        res = enc.results.get(pname)
        if res is None:
            continue
        problems = structure_problems(res, enc, pname, is_warning=is_warning_conf(g.confkw))
        out.obligations += 1
        if problems:
            out.findings.append({'kind': 'structure', 'program': pname, 'label': '; '.join(problems),
                                 'replay': write_replay('C03', {'kind': 'structure', 'hint': src, 'confkw': g.confkw,
                                                               'problems': problems,
                                                               'code': (g.raiser if pname == 'raiser' else g.wrapper).code}),
                                 'detail': '; '.join(problems), 'hint': out.name, 'confkw': out.confkw})
        else:
            out.discharged += 1
    out.queries += d.stats['queries']
    out.solver_s += d.stats['solver_s']
    out.sample = {'hint': out.name, 'conf': out.confkw,
                  'obligation': 'unsat(tester(x,r) xor g(x,r)) for g in raiser/param/return; trace: one get_violation(random_int=r) then raise|warn'}

    def build(encU):
        return [[z3.Xor(encU.guards['tester'], encU.guards['raiser'])],
                [z3.Xor(encU.guards['tester'], encU.guards['param'])],
                [encU.guards['param'], z3.Xor(encU.guards['tester'], encU.guards['return'])]]
    _unbounded(out, g, build)


def is_warning_conf(confkw):
    for k in ('violation_type', 'violation_door_type', 'violation_param_type', 'violation_return_type'):
        v = confkw.get(k)
        if isinstance(v, type) and issubclass(v, Warning):
            return True
    return False


def structure_problems(res, enc, pname, is_warning):
    """Syntactic-semantic shape of the rejection path, read off the symbolic trace."""
    from .sym import VInt, VObj, VConc
    problems = []
    viols = res.of('violation')
    raises = res.of('raise')
    warns = res.of('warn')
    s = z3.Solver()
    s.set('timeout', 5000)
    s.add(enc.base_constraints())
    for v in viols:
        k = v.data['k']
        followers = [e for e in raises + warns if e.data.get('viol') == k]
        if len(followers) != 1:
            problems.append(f'{pname}: violation #{k} is followed by {len(followers)} raise/warn statements')
            continue
        f = followers[0]
        # same path condition
        s.push()
        s.add(z3.Xor(v.pc, f.pc))
        if s.check() != z3.unsat:
            problems.append(f'{pname}: violation #{k} built and {f.kind} happen under different conditions')
        s.pop()
        ri = v.data['kwargs'].get('random_int')
        if ri is not None:
            if not isinstance(ri, VInt) or ri.i.get_id() != enc.r.get_id():
                problems.append(f'{pname}: violation #{k} receives a draw other than the one the check used')
        else:
            # no draw passed: the guard must not depend on the draw
            pass
        pv = v.data['kwargs'].get('pith_value') or v.data['kwargs'].get('obj')
        if pv is None or not isinstance(pv, VObj):
            problems.append(f'{pname}: violation #{k} is not given the checked object')
    for e in raises:
        if e.data.get('viol') is None:
            problems.append(f'{pname}: raises something that is not the violation object')
    return problems


# --------------------------------------------------------------------------- C09 / C10 (fast path)

def c09(g, tier, out, src):
    node = refsem.parse(g.hint, tower=bool(g.confkw.get('is_pep484_tower')))
    K = refsem.reads_bound(node)
    out.nontrivial = K > 0

    def per(enc, d, bounded):
        U, x = enc.U, enc.x
        fs = []
        for pname, res in enc.results.items():
            evs = [e for e in res.events if e.kind in ('read', 'scan')]
            cost = z3.Sum([z3.If(e.pc, e.weight, 0) for e in evs]) if evs else z3.IntVal(0)
            if pname == 'wrapper':
                lim = 2 * K       # parameter section + return section
            else:
                lim = K
            fs.append((pname, [cost > lim], lim))
            # non-collection iterables are not iterated at all
            noncoll = z3.Not(U.isinstance(x, refsem.cabc.Collection))
            reads_x = [e for e in evs if e.subject.get_id() == x.get_id()]
            if reads_x:
                fs.append((pname + ':noncollection', [noncoll, z3.Or([e.pc for e in reads_x])], 0))
        return fs
    enc = Encoding(g, bound_for(tier, node), node=node)
    d = Discharger(enc)
    for pname, fs, lim in per(enc, d, True):
        prog = {'wrapper': 'param'}.get(pname.split(':')[0], pname.split(':')[0])
        oblige(out, d, enc, 'C09', f'{pname}: item reads > {lim}', fs, ('cost', prog), src,
               extra={'bound_reads': lim})
    out.queries += d.stats['queries']
    out.solver_s += d.stats['solver_s']
    out.sample = {'hint': out.name, 'conf': out.confkw, 'K(H)': K,
                  'obligation': 'unsat(cost(x,r) > K(H)) with len(x) an unconstrained non-negative integer'}

    def build(encU):
        return [fs for _p, fs, _l in per(encU, None, False)]
    _unbounded(out, g, build)


def c10(g, tier, out, src):
    node = refsem.parse(g.hint, tower=bool(g.confkw.get('is_pep484_tower')))
    enc = Encoding(g, bound_for(tier, node), node=node)
    d = Discharger(enc)
    out.nontrivial = g.tester is not None

    def per(enc):
        fs = []
        for pname, res in enc.results.items():
            effs = [e for e in res.events if e.kind in ('consume', 'insert', 'mutate')]
            if not effs:
                continue
            cond = z3.Or([e.pc for e in effs])
            fs.append((pname, [cond]))
        return fs
    for pname, fs in per(enc):
        prog = {'wrapper': 'param'}.get(pname, pname)
        oblige(out, d, enc, 'C10', f'{pname}: an effect (consume / defaultdict insert / mutate) is reachable',
               fs, ('effect', prog), src)
    # the wrapper passes the identical argument terms through
    res = enc.results.get('wrapper')
    if res is not None:
        out.obligations += 1
        calls = res.of('call')
        ok = len(calls) == 1 and calls[0].data['node'].replace(' ', '') in (
            '__beartype_func(*args,**kwargs)',)
        if ok:
            out.discharged += 1
        else:
            out.findings.append({'kind': 'structure', 'program': 'wrapper', 'label': 'call-through is not func(*args, **kwargs)',
                                 'replay': write_replay('C10', {'kind': 'structure', 'hint': src, 'code': g.wrapper.code}),
                                 'detail': 'call-through altered', 'hint': out.name, 'confkw': out.confkw})
    out.queries += d.stats['queries']
    out.solver_s += d.stats['solver_s']
    out.sample = {'hint': out.name, 'conf': out.confkw,
                  'obligation': 'unsat(effect(x,r)): next() on a one-shot iterator, x[k] on a defaultdict with k absent, any mutating call'}

    def build(encU):
        return [fs for _p, fs in per(encU)]
    _unbounded(out, g, build)


PROPS = {'C01': c01, 'C02': c02, 'C03': c03a, 'C09': c09, 'C10': c10}


def run_case(prop, name, hint, confkw, tier, src, props=None):
    global BOUND_DELTA
    props = props or PROPS
    t0 = time.time()
    for delta in (0, 1, 2):
        BOUND_DELTA = delta
        out = CaseOut(name, confkw)
        try:
            g = generate(hint, confkw)
            if g.error is not None and type(g.error).__name__.startswith('_') and prop in ('C01', 'C03', 'C12'):
                # not "beartype rejects this hint" but an internal (underscore-prefixed) error such
                # as generated code that does not compile: every object, conforming ones included,
                # is then answered with a non-violation exception
                payload = {'property': prop, 'kind': 'side', 'program': 'tester', 'hint': src, 'confkw': confkw,
                           'obj': {'c': 'NoneType'}, 'draw': 0}
                path = write_replay(prop, payload)
                from .replay import replay_subprocess
                ok, detail = replay_subprocess(path)
                if ok:
                    out.findings.append({'kind': 'internal_error', 'program': 'tester', 'label': 'code generation fails with an internal error',
                                         'replay': path, 'detail': detail[:300], 'hint': out.name, 'confkw': out.confkw})
                else:
                    out.inconclusive.append(f'internal error {type(g.error).__name__} did not reproduce: {detail[:200]}')
            elif g.error is not None:
                out.skipped = f'{type(g.error).__name__}: {str(g.error)[:120]}'
            else:
                props[prop](g, tier, out, src)
        except Unsupported as e:
            out.inconclusive.append(f'unsupported: {e}')
        except Exception as e:
            out.inconclusive.append('harness exception: ' + traceback.format_exc()[-600:])
        if not any('unknown' in i for i in out.inconclusive):
            break
    if BOUND_DELTA:
        out.observations.append(f'bounded mode decided with container length bound reduced by {BOUND_DELTA} '
                                f'(solver unknown at the default bound)')
    BOUND_DELTA = 0
    out.wall = time.time() - t0
    return out
