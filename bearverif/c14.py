"""C14 — answers do not depend on what was asked before (Engine G; partial).

*Decided by the solver*: "cached and first-time answers are identical" for door checks.  For each
adversarial history script the history is run for real, then the checker function the *real* API now
executes for the target query is identified (profile hook on the generated code object) and compared
with the checker a *fresh copy of beartype* (re-imported, empty caches) generates for the same
target: the two generated programs -- code + resolved scope objects -- must be equivalent for all
objects and draws (XOR unsat), and the history-side checker must still satisfy C01 for the target.
Because scope names are id()-derived, resolution compares what object each name denotes, which is
exactly where id reuse would bite.

The space of histories is a catalogue + seeded variations (enumerated, not quantified).
"""
from __future__ import annotations
import gc
import random
import sys
import time
import traceback
import warnings
from contextlib import contextmanager
from typing import Annotated, Dict, List, Literal, Optional, Set, Tuple, Union
import z3

import bearverif  # noqa: F401  (string hints of the scripts are evaluated in this module's globals)
from . import capture, refsem
from . import userclasses as uc
from .core import Generated, Encoding, Discharger
from .engine_g import CaseOut, oblige
from .universe import Unsupported


class _Dummy:
    pass


@contextmanager
def fresh_beartype():
    """A second, freshly imported copy of the beartype package (empty caches): the in-process
    stand-in for a fresh interpreter.  The main copy is restored afterwards."""
    saved = {k: sys.modules.pop(k) for k in list(sys.modules) if k == 'beartype' or k.startswith('beartype.')}
    try:
        import beartype  # noqa: F401  (fresh copy)
        capture.install()
        yield
    finally:
        for k in list(sys.modules):
            if k == 'beartype' or k.startswith('beartype.'):
                del sys.modules[k]
        sys.modules.update(saved)


def checker_used(hint, kind='tester', confkw=None):
    """Record of the generated function the public API executes *now* for ``hint`` (None if no
    generated code runs, i.e. the hint is treated as ignorable)."""
    from beartype.door import is_bearable, die_if_unbearable
    capture.install()
    seen = []

    def prof(frame, event, arg):
        if event == 'call' and frame.f_code.co_name.startswith('__beartype_checker_'):
            seen.append(frame.f_code)
    sys.setprofile(prof)
    try:
        with warnings.catch_warnings():
            warnings.simplefilter('ignore')
            try:
                kw = {'conf': _conf(confkw)} if confkw else {}
                if kind == 'tester':
                    is_bearable(_Dummy(), hint, **kw)
                else:
                    die_if_unbearable(_Dummy(), hint, **kw)
            except Exception as e:
                exc = e
            else:
                exc = None
    finally:
        sys.setprofile(None)
    if not seen:
        return None, exc
    rec = capture.BY_CODE.get(seen[-1])
    if rec is None:
        raise Unsupported('executed checker was not generated under the spy')
    # forward-reference proxies resolve lazily and cache their referent: make them do so now, i.e.
    # inside the copy of beartype that created them (a proxy resolving later, after the other copy
    # was swapped back in, would mix two copies of beartype -- a harness artefact)
    for v in rec.scope.values():
        if isinstance(v, type) and 'forwardref' in type(v).__name__.lower() + v.__name__.lower() + repr(type(v)).lower():
            try:
                isinstance(_Dummy(), v)
            except Exception:
                pass
    return rec, exc


# --------------------------------------------------------------------------- history scripts
# Each script: setup() -> dict with 'target' hint (+ helper objects); history(objs) runs earlier
# queries against the *main* beartype copy.

def _api():
    from beartype.door import is_bearable, die_if_unbearable, is_subhint, TypeHint
    return is_bearable, die_if_unbearable, is_subhint, TypeHint


def _conf(confkw):
    """Configuration object of the *currently imported* beartype copy (None = default)."""
    if not confkw:
        return None
    from .grammar import make_conf
    return make_conf(confkw)


def _q(hint, *objs, confkw=None):
    is_bearable, die_if_unbearable, is_subhint, TypeHint = _api()
    kw = {'conf': _conf(confkw)} if confkw else {}
    for o in objs or (1, 'a', None, [1], ['a']):
        try:
            is_bearable(o, hint, **kw)
        except Exception:
            pass
        try:
            die_if_unbearable(o, hint, **kw)
        except Exception:
            pass
    try:
        TypeHint(hint)
        is_subhint(hint, hint)
    except Exception:
        pass


def s_union_order(rng):
    return {'target': Union[str, int]}, lambda o: (_q(Union[int, str]), _q(int | str), _q(Optional[Union[int, str]]))


def s_literal_lookalike(rng):
    return {'target': Literal[True]}, lambda o: (_q(Literal[1]), _q(Literal[1, 2]), _q(Literal[True, 1]))


def s_literal_lookalike2(rng):
    return {'target': List[Literal[0]]}, lambda o: (_q(List[Literal[False]]), _q(List[Literal[0, False]]))


def s_hash_collision(rng):
    """Unequal hints with equal hash(): hash(-1) == hash(-2) and hash(n) == hash(n + 2**61 - 1) in CPython."""
    a, b = rng.choice([(-1, -2), (-2, -1), (0, 2 ** 61 - 1), (1, 2 ** 61), (5, 5 + 2 ** 61 - 1)])
    mk = rng.choice([lambda v: Literal[v], lambda v: List[Literal[v]], lambda v: Optional[Literal[v]],
                     lambda v: Dict[str, Literal[v]], lambda v: Tuple[Literal[v], int], lambda v: Literal[v, 'a']])
    old, target = mk(a), mk(b)
    return {'target': target, 'note': f'literals {a} / {b} hash alike'}, lambda o: _q(old, a, b, [a], [b], {'k': a}, (a, 1))


def s_annotated_meta(rng):
    return {'target': Annotated[int, True]}, lambda o: (_q(Annotated[int, 1]), _q(Annotated[int, 1.0]))


def _abc(name, registered):
    import abc
    C = abc.ABCMeta(name, (), {'__module__': 'bearverif.c14_scratch', '__qualname__': name})
    C.register(registered)
    return C


def s_class_redefined(rng):
    d1 = _abc('Dup', uc.UA)
    d2 = _abc('Dup', uc.UC)
    kind = rng.choice([List, Optional, Set])
    mk = (lambda c: kind[c])
    return {'target': mk(d2), 'old': mk(d1)}, lambda o: _q(o['old'], uc.UA(), [uc.UA()], uc.UC(), [uc.UC()])


SAME_REPR_SHAPES = [
    ('list[X]', lambda X: list[X]), ('set[X]', lambda X: set[X]), ('dict[str,X]', lambda X: dict[str, X]),
    ('tuple[X,...]', lambda X: tuple[X, ...]), ('tuple[X,int]', lambda X: tuple[X, int]), ('X|None', lambda X: X | None),
    ('list[X]|None', lambda X: list[X] | None), ('int|list[X]', lambda X: int | list[X]), ('dict[str,list[X]]', lambda X: dict[str, list[X]]),
    ('type[X]', lambda X: type[X]), ('frozenset[X]', lambda X: frozenset[X]),
    ('List[X]', lambda X: List[X]), ('Optional[X]', lambda X: Optional[X]), ('Dict[str,X]', lambda X: Dict[str, X]),
    ('Union[X,int]', lambda X: Union[X, int]), ('Tuple[X,...]', lambda X: Tuple[X, ...]),
]


def s_same_repr(rng):
    """Two different hints with one repr(): same-named classes (as produced by a class factory, a
    reloaded module or two function bodies), same-named NewTypes and same-named TypeVars, inside
    PEP 585 / PEP 604 / typing spellings.  The first is asked, the second is the target."""
    import typing
    kind = rng.choice(['class', 'class', 'newtype', 'typevar'])
    if kind == 'class':
        x1, x2 = _abc('Twin', uc.UA), _abc('Twin', rng.choice([uc.UC, int, str]))
    elif kind == 'newtype':
        x1, x2 = typing.NewType('Twin', int), typing.NewType('Twin', rng.choice([str, uc.UA]))
    else:
        x1, x2 = typing.TypeVar('Twin', bound=int), typing.TypeVar('Twin', bound=rng.choice([str, uc.UA]))
    if rng.random() < 0.5:
        x1, x2 = x2, x1
    name, mk = rng.choice(SAME_REPR_SHAPES)
    if kind != 'class' and name == 'type[X]':
        name, mk = SAME_REPR_SHAPES[0]
    old, target = mk(x1), mk(x2)

    def hist(o):
        _q(old, uc.UA(), [uc.UA()], 1, [1], 'a', ['a'], {'a': 1}, None)
    return {'target': target, 'note': f'{name} over two {kind} objects named Twin'}, hist


def s_id_reuse(rng):
    """A hint class is created, queried, dropped and garbage-collected; new classes are allocated
    until one reuses its id(); the target uses that one."""
    import abc
    c1 = _abc('Gone', uc.UA)
    _q(List[c1], [uc.UA()], [uc.UC()])
    _q(Dict[str, c1], {'a': uc.UA()})
    want = id(c1)
    del c1
    gc.collect()
    reuse = None
    keep = []
    for _ in range(400):
        c = _abc('Gone', uc.UC)
        if id(c) == want:
            reuse = c
            break
        keep.append(c)
    note = 'id reused' if reuse is not None else 'id not reused (plain redefinition exercised)'
    tgt = reuse if reuse is not None else keep[-1]
    return {'target': List[tgt], 'note': note}, lambda o: None


def s_clear_caches(rng):
    def hist(o):
        _q(Dict[str, List[int]])
        from beartype._util.cache.utilcacheclear import clear_caches
        clear_caches()
        _q(Dict[str, List[str]])
    return {'target': Dict[str, List[int]]}, hist


def s_failing_forward_ref(rng):
    """A forward reference that fails first (the attribute does not exist yet) must not be
    remembered as failing."""
    mod = _scratch()
    if hasattr(mod, 'Late'):
        delattr(mod, 'Late')

    def hist(o):
        is_bearable = _api()[0]
        o['first'] = None
        try:
            is_bearable(uc.UA(), 'bearverif.c14_scratch.Late')
            o['first'] = 'no exception'
        except Exception as e:
            o['first'] = type(e).__name__
        mod.Late = uc.UA
    return {'target': 'bearverif.c14_scratch.Late', 'needs_late': True}, hist


def _scratch():
    import types
    import bearverif
    mod = sys.modules.get('bearverif.c14_scratch')
    if mod is None:
        mod = types.ModuleType('bearverif.c14_scratch')
        sys.modules['bearverif.c14_scratch'] = mod
    bearverif.c14_scratch = mod          # string hints are eval()ed: the attribute must exist too
    return mod


def s_string_ref_rebound(rng):
    """A string hint naming a subscripted user generic is queried, the name is rebound to another
    generic, and the equal string is queried again (possibly nested in a container hint)."""
    mod = _scratch()
    mod.Box = uc.UGenList
    wrap = rng.choice([lambda s: s, lambda s: List[s], lambda s: Optional[s] if False else List[s]])
    ref = 'bearverif.c14_scratch.Box[int]'

    def hist(o):
        _q(ref, uc.UGenList([1]), uc.UGenList2([1]), [1])
        _q(List[ref], [uc.UGenList([1])], [uc.UGenList2([1])])
        mod.Box = uc.UGenList2
    return {'target': wrap(ref), 'rebound': True}, hist


def s_string_ref_class_rebound(rng):
    mod = _scratch()
    mod.Thing = uc.UA
    ref = 'bearverif.c14_scratch.Thing'

    def hist(o):
        _q(ref, uc.UA(), uc.UC())
        _q(Dict[str, ref], {'a': uc.UA()})
        mod.Thing = uc.UC
    return {'target': rng.choice([ref, List[ref], Dict[str, ref]])}, hist


def s_string_ref_ignorable_first(rng):
    """A string hint is first asked while its name denotes something ignorable (object / Any), then
    the name is bound to an ordinary class and the equal string (bare, as a TypeVar bound, inside
    a container) is asked again: an 'everything passes' verdict must not be remembered."""
    import typing
    mod = _scratch()
    mod.Alias = rng.choice([object, object, typing.Any])
    ref = 'bearverif.c14_scratch.Alias'
    shape = rng.choice(['bare', 'bare', 'typevar', 'list', 'dict'])
    mk = {'bare': lambda r: r, 'typevar': lambda r: typing.TypeVar('TAlias', bound=r), 'list': lambda r: List[r],
          'dict': lambda r: Dict[str, r]}[shape]
    first = mk(ref)

    def hist(o):
        _q(first, 1, 'a', uc.UA(), [1], {'a': 1})
        if shape != 'bare':
            _q(ref, 1, uc.UA())
        mod.Alias = uc.UA
    return {'target': first if shape != 'typevar' else mk(ref), 'note': f'{shape} over a name rebound from an ignorable referent to a class'}, hist


REDEF_FUNC = """
from beartype import beartype
@beartype
def f(x: 'Cls') -> None:
    return None
"""
REDEF_CLS = """
import abc
from beartype import beartype
from bearverif.userclasses import UA, UB, UC
@beartype
class Cls(abc.ABC):
    def m(self, x: int) -> int:
        return x
Cls.register({reg})
"""


def _redef_module():
    import types
    name = 'bearverif.c14_redef'
    mod = sys.modules.get(name)
    if mod is None:
        mod = types.ModuleType(name)
        sys.modules[name] = mod
    return mod


def _redef_run(steps):
    """Execute definition / call steps in the scratch module of the *currently imported* beartype; returns
    the Record of f's wrapper.  steps: ('func',) | ('cls', 'UA'|'UB'|'UC') | ('call', 'UA'|...)."""
    mod = _redef_module()
    for k in [k for k in vars(mod) if not k.startswith('__')]:
        delattr(mod, k)
    frec = None
    with warnings.catch_warnings():
        warnings.simplefilter('ignore')
        for st in steps:
            if st[0] == 'func':
                with capture.recording() as recs:
                    exec(compile(REDEF_FUNC, '<c14 redef>', 'exec', dont_inherit=True), vars(mod))
                frec = next((r for r in recs if r.name == 'f'), None)
            elif st[0] == 'cls':
                exec(compile(REDEF_CLS.format(reg=st[1]), '<c14 redef>', 'exec', dont_inherit=True), vars(mod))
            else:
                try:
                    mod.f(getattr(uc, st[1])())
                except Exception:
                    pass
    return frec


def s_decorated_class_redefined(rng):
    """A callable annotated by a forward reference to a @beartype-decorated class; the class is defined, used,
    redefined (same module, same name), used again, redefined again ...; the callable is then compared with
    the same callable defined in a fresh beartype against the final definition only."""
    regs = ['UA', 'UB', 'UC']
    n = rng.choice([2, 3, 3, 4])
    steps = [('func',)]
    for i in range(n):
        steps.append(('cls', regs[i % 3]))
        if rng.random() < 0.8:
            steps.append(('call', regs[i % 3]))
    final = [('func',), ('cls', regs[(n - 1) % 3])]
    return {'custom': 'redef', 'steps': steps, 'final': final, 'target': None,
            'note': f'{n} definitions of one decorated class, calls in between'}, (lambda o: None)


def s_similar_containers(rng):
    fam = rng.sample([List[int], List[bool], Tuple[int, ...], Set[int], Dict[int, int], Optional[List[int]],
                      List[Optional[int]], Tuple[int, int], List[Union[int, str]]], 4)
    return {'target': fam[0]}, lambda o: [_q(h) for h in fam[1:]]


def s_failing_hint_first(rng):
    """An unsupported hint queried first (raises a beartype exception) next to a supported look-alike."""
    def hist(o):
        _q(List[int, str] if False else 'int | NoSuchName')
        _q(List['NoSuchName'])
    return {'target': List[int]}, hist


HIST_CONFS = [{}, {}, {'is_random': False}, {'is_pep484_tower': True}, {'strategy': 'On'},
              {'hint_overrides': [['int', 'int|str']]}, {'hint_overrides': [['str', 'str|bytes']]},
              {'hint_overrides': [['float', 'float|int']]}, {'violation_type': 'VerifError'},
              {'is_random': False, 'is_pep484_tower': True}]


def _spellings(name, h):
    """Look-alikes of a hint: other spellings / orders / neighbours that compare or hash alike."""
    import typing
    out = []
    origin, args = typing.get_origin(h), typing.get_args(h)
    if origin is Union and len(args) >= 2:
        out.append(Union[tuple(reversed(args))])
        out.append(Optional[h])
    if origin in (list, set, frozenset, tuple, dict, type) and args:
        try:
            out.append(origin[args if len(args) != 1 else args[0]])      # PEP 585 spelling
        except Exception:
            pass
    if origin is list and args:
        out += [List[Optional[args[0]]], Tuple[args[0], ...], typing.Sequence[args[0]]]
    if origin is Literal:
        flip = {True: 1, 1: True, False: 0, 0: False}
        out.append(Literal[tuple(flip.get(a, a) if type(a) in (bool, int) else a for a in args)])
    return out


def s_grammar_conf_mix(rng):
    """A target from the hint grammar under one configuration, after look-alike hints (other
    spellings, member orders, neighbours sharing its children) and the target itself were asked
    under other configurations."""
    from . import grammar
    pool = [(n, h) for n, h in grammar.hints_depth1() + grammar.special_hints() + grammar.hints_depth2_curated()
            if 'Annotated' not in n and 'Callable' not in n and 'Any' not in n]
    name, target = rng.choice(pool)
    tkw = rng.choice(HIST_CONFS)
    near = _spellings(name, target)
    # neighbours: same first token (constructor) or sharing the argument text
    head = name.split('[')[0]
    tail = name[len(head):]
    near += [h for n, h in rng.sample(pool, 60) if n.split('[')[0] == head or (tail and n.endswith(tail))][:4]
    hist_plan = [(h, rng.choice(HIST_CONFS)) for h in near] + [(target, c) for c in rng.sample(HIST_CONFS, 3) if c != tkw]
    rng.shuffle(hist_plan)

    def hist(o):
        for h, ckw in hist_plan:
            _q(h, confkw=ckw)
    return {'target': target, 'confkw': tkw, 'note': f'{name} under {tkw} after {len(hist_plan)} look-alike queries'}, hist


def s_conf_lookalikes(rng):
    """The same hint under configurations that differ only in one option (and under equal
    configurations built twice): the memo key must include every option that changes the code."""
    from . import grammar
    fam = [List[float], Optional[float], Dict[str, float], Tuple[complex, ...], List[int], Union[int, str], Set[str],
           List[List[int]], Dict[int, List[str]], Tuple[int, str], Literal[1, 'a']]
    target = rng.choice(fam)
    tkw = rng.choice(HIST_CONFS[2:])
    others = [c for c in HIST_CONFS if c != tkw]

    def hist(o):
        for ckw in others:
            _q(target, confkw=ckw)
        _q(target, confkw=dict(tkw))
    return {'target': target, 'confkw': tkw, 'note': f'{target} under {tkw} after every other configuration'}, hist


SCRIPTS = [s_grammar_conf_mix, s_conf_lookalikes, s_same_repr, s_hash_collision, s_union_order, s_literal_lookalike, s_literal_lookalike2, s_annotated_meta, s_class_redefined, s_id_reuse,
           s_clear_caches, s_failing_forward_ref, s_similar_containers, s_failing_hint_first,
           s_string_ref_rebound, s_string_ref_class_rebound, s_string_ref_ignorable_first, s_decorated_class_redefined]


def cases(tier, seed):
    out = []
    for sc in SCRIPTS:
        if sc is s_grammar_conf_mix:
            reps = 12 if tier == 'quick' else 160
        elif sc is s_conf_lookalikes:
            reps = 6 if tier == 'quick' else 40
        elif sc is s_same_repr:
            reps = 16 if tier == 'quick' else 200
        elif sc is s_decorated_class_redefined:
            reps = 6 if tier == 'quick' else 30
        elif sc is s_hash_collision:
            reps = 8 if tier == 'quick' else 60
        elif sc is s_string_ref_ignorable_first:
            reps = 6 if tier == 'quick' else 30
        else:
            reps = 2 if tier == 'quick' else 16
        for k in range(reps):
            name = f'{sc.__name__}#{k}'
            out.append((name, {'script': sc.__name__, 'k': k}, {}, {'gen': 'c14', 'script': sc.__name__, 'k': k, 'seed': seed}))
    return out


def run_case(prop, name, spec, confkw, tier, src):
    out = CaseOut(name, confkw)
    t0 = time.time()
    try:
        rng = random.Random(f'{src.get("seed", 0)}:{name}')
        sc = {s.__name__: s for s in SCRIPTS}[spec['script']]
        capture.install()
        objs, hist = sc(rng)
        if objs.get('custom') == 'redef':
            return _run_redef(out, objs, name, src, t0)
        hist(objs)
        target = objs['target']
        tkw = objs.get('confkw') or {}
        if objs.get('needs_late'):
            out.obligations += 1
            if objs.get('first') in (None, 'no exception') or 'ForwardRef' not in str(objs.get('first')):
                out.findings.append(_finding(name, src, f'first query of an undefined forward reference gave {objs.get("first")}'))
            else:
                out.discharged += 1
        try:
            from .grammar import OVERRIDE_HINTS
            ov = {OVERRIDE_HINTS[a]: OVERRIDE_HINTS[b] for a, b in tkw.get('hint_overrides', [])} or None
            node = (refsem.parse(target, tower=bool(tkw.get('is_pep484_tower')), overrides=ov)
                    if not _has_str(target) else refsem.Node('any'))
        except Unsupported:
            node = refsem.Node('any')
        for kind in ('tester', 'raiser'):
            rec_h, exc_h = checker_used(target, kind, tkw)
            first = None
            if rec_h is not None:
                ga = Generated()
                ga.hint, ga.confkw = target, tkw
                setattr(ga, kind, rec_h)
                first = Encoding(ga, 3, node=node)
            # the first-time checker is generated *and encoded* inside the fresh copy of beartype:
            # its forward-reference proxies resolve lazily and must do so against their own copy
            second = None
            with fresh_beartype():
                rec_f, exc_f = checker_used(target, kind, tkw)
                if rec_f is not None and first is not None:
                    gb = Generated()
                    gb.hint, gb.confkw = target, tkw
                    setattr(gb, kind, rec_f)
                    second = Encoding(gb, None, node=node, share=first)
            out.obligations += 1
            if exc_f is not None and not _is_violation(exc_f):
                out.inconclusive.append(f'{kind}: a fresh beartype cannot answer the target query at all '
                                        f'({type(exc_f).__name__}): the script is vacuous')
                continue
            if (rec_h is None) != (rec_f is None):
                out.findings.append(_finding(name, src, f'{kind}: after the history {"no" if rec_h is None else "a"} checker runs, '
                                                        f'a fresh beartype runs {"none" if rec_f is None else "one"}'))
                continue
            if exc_h is not None and type(exc_h).__name__ != type(exc_f).__name__ and not _is_violation(exc_h):
                out.findings.append(_finding(name, src, f'{kind}: after the history the query raises {type(exc_h).__name__}, fresh: {type(exc_f).__name__}'))
                continue
            out.discharged += 1
            if rec_h is None:
                continue
            first.assume.extend(second.assume)
            for r in second.results.values():
                first.results[id(r)] = r
            d = Discharger(first)
            oblige(out, d, first, 'C14', f'{kind}: checker used after the history differs from the first-time checker',
                   [z3.Xor(first.guards[kind], second.guards[kind])], ('c14', kind), src)
            if node.kind != 'any' and not str(target).startswith('typing.Annotated'):
                oblige(out, d, first, 'C14', f'{kind}: checker used after the history rejects a conforming object',
                       [first.sem.full(node, first.x), z3.Not(first.guards[kind])], ('c14', kind), src)
            # a non-violation exception reachable in the checker used after the history (and not
            # in the first-time checker) is history dependence too
            fresh_sides = {sc.where for sc in second.side.get(kind, [])}
            for sc in first.side.get(kind, []):
                if sc.kind == 'isinstance_raises' and sc.where not in fresh_sides:
                    oblige(out, d, first, 'C14', f'{kind}: after the history the checker raises at `{sc.where}`; a fresh one does not',
                           [sc.cond], ('c14', kind), src)
            out.queries += d.stats['queries']
            out.solver_s += d.stats['solver_s']
        # the same question for a callable decorated *now*: its check expressions come from caches the
        # history may have filled (decoration-side caches are separate from the door API's)
        if not _has_str(target):
            from .core import make_identity
            rec_dh = _wrapper_now(target, tkw)
            first = second = None
            if rec_dh is not None:
                ga = Generated()
                ga.hint, ga.confkw, ga.wrapper = target, tkw, rec_dh
                first = Encoding(ga, 3, node=node)
            with fresh_beartype():
                rec_df = _wrapper_now(target, tkw)
                if rec_df is not None and first is not None:
                    gb = Generated()
                    gb.hint, gb.confkw, gb.wrapper = target, tkw, rec_df
                    second = Encoding(gb, None, node=node, share=first)
            out.obligations += 1
            if (rec_dh is None) != (rec_df is None):
                out.findings.append(_finding(name, src, f'decorating after the history {"does not wrap" if rec_dh is None else "wraps"} the callable, '
                                                        f'a fresh beartype {"does not" if rec_df is None else "does"}'))
            else:
                out.discharged += 1
                if first is not None and second is not None:
                    first.assume.extend(second.assume)
                    for r in second.results.values():
                        first.results[id(r)] = r
                    d = Discharger(first)
                    for prog in ('param', 'return'):
                        pre = [first.guards['param'], second.guards['param']] if prog == 'return' else []
                        oblige(out, d, first, 'C14', f'{prog} check of a callable decorated after the history differs from one decorated by a fresh beartype',
                               pre + [z3.Xor(first.guards[prog], second.guards[prog])], ('c14', prog), src)
                    out.queries += d.stats['queries']
                    out.solver_s += d.stats['solver_s']
        out.nontrivial = True
        out.sample = {'history_script': name, 'target': repr(target)[:120], 'note': objs.get('note', ''),
                      'obligation': 'unsat(checker_after_history(x,r) xor checker_fresh(x,r))'}
    except Unsupported as e:
        out.inconclusive.append(f'unsupported: {e}')
    except Exception:
        out.inconclusive.append('harness exception: ' + traceback.format_exc()[-700:])
    out.wall = time.time() - t0
    return out


def _run_redef(out, objs, name, src, t0):
    anynode = refsem.Node('any')
    rec_h = _redef_run(objs['steps'])
    first = None
    if rec_h is not None:
        ga = Generated()
        ga.hint, ga.confkw, ga.wrapper = None, {}, rec_h
        first = Encoding(ga, 3, node=anynode)
    second = None
    with fresh_beartype():
        rec_f = _redef_run(objs['final'])
        if rec_f is not None and first is not None:
            gb = Generated()
            gb.hint, gb.confkw, gb.wrapper = None, {}, rec_f
            second = Encoding(gb, None, node=anynode, share=first)
    out.obligations += 1
    if first is None or second is None:
        out.inconclusive.append('no wrapper captured for the callable annotated by the forward reference')
        out.wall = time.time() - t0
        return out
    out.discharged += 1
    first.assume.extend(second.assume)
    for r in second.results.values():
        first.results[id(r)] = r
    d = Discharger(first)
    oblige(out, d, first, 'C14', 'parameter check of a callable whose forward reference names a class that was redefined differs from the '
                                'same callable in a fresh beartype against the final definition',
           [z3.Xor(first.guards['param'], second.guards['param'])], ('c14', 'redef'), src)
    out.queries += d.stats['queries']
    out.solver_s += d.stats['solver_s']
    out.nontrivial = True
    out.sample = {'history_script': name, 'steps': objs['steps'], 'note': objs.get('note', ''),
                  'obligation': 'unsat(check_after_history(x,r) xor check_fresh(x,r))'}
    out.wall = time.time() - t0
    return out


def _wrapper_now(target, confkw):
    """Record of the wrapper the currently imported beartype generates for `def ident(x: T) -> T` (None if it
    returns the callable unwrapped)."""
    from .core import make_identity
    from .capture import capture_wrapper
    from beartype import BeartypeConf
    import warnings as _w
    with _w.catch_warnings():
        _w.simplefilter('ignore')
        try:
            _dec, rec = capture_wrapper(make_identity(target), _conf(confkw) or BeartypeConf())
        except Exception:
            return None
    return rec


def _is_violation(e):
    return 'Violation' in type(e).__name__ or type(e).__name__ in ('VerifError', 'VerifWarning')


def _has_str(h):
    import typing
    if isinstance(h, (str, typing.ForwardRef)):
        return True
    return any(_has_str(a) for a in typing.get_args(h) if a is not Ellipsis and not isinstance(a, (int, bytes, bool, list)))


def _finding(name, src, label):
    from .core import write_replay
    return {'kind': 'c14', 'program': 'history', 'label': label,
            'replay': write_replay('C14', {'property': 'C14', 'kind': 'c14', 'hint': src, 'obj': {'c': 'NoneType'}, 'draw': 0,
                                           'program': 'structure', 'label': label}),
            'detail': label, 'hint': name, 'confkw': {}}


def replay_c14(p):
    """Concrete replay: answers after the history vs answers of a fresh beartype copy on the
    reified object (same pinned draw)."""
    from . import universe
    from .drawpin import PIN
    src = p['hint']
    rng = random.Random(f'{src.get("seed", 0)}:{src["script"]}#{src["k"]}')
    sc = {s.__name__: s for s in SCRIPTS}[src['script']]
    capture.install()
    objs, hist = sc(rng)
    if objs.get('custom') == 'redef':
        def verdict(steps):
            _redef_run(steps)
            mod = _redef_module()
            PIN.value = p['draw']
            try:
                try:
                    mod.f(universe.build(p['obj']))
                    return 'accept'
                except Exception as e:
                    return 'raise:' + type(e).__name__
            finally:
                PIN.value = None
        a = verdict(objs['steps'])
        with fresh_beartype():
            b = verdict(objs['final'])
        if a != b:
            return True, f'after the history {objs["steps"]}: {a}; fresh beartype with the final definition only: {b}; object {universe.build(p["obj"])!r}'
        return False, f'both {a}'
    hist(objs)
    target = objs['target']
    tkw = objs.get('confkw') or {}
    if p.get('program') == 'structure':
        for kind in ('tester', 'raiser'):
            rec_h, exc_h = checker_used(target, kind, tkw)
            with fresh_beartype():
                rec_f, exc_f = checker_used(target, kind, tkw)
            if (rec_h is None) != (rec_f is None):
                return True, p.get('label', 'checker presence differs')
        if objs.get('needs_late') and 'ForwardRef' not in str(objs.get('first')):
            return True, p.get('label', '')
        return False, 'structure agrees'

    def ask():
        from beartype.door import is_bearable, die_if_unbearable
        PIN.value = p['draw']
        try:
            obj = universe.build(p['obj'])
            kw = {'conf': _conf(tkw)} if tkw else {}
            try:
                if p['program'] in ('param', 'return'):
                    from .core import make_identity
                    from beartype import beartype, BeartypeConf
                    f = beartype(conf=kw.get('conf') or BeartypeConf())(make_identity(target))
                    f(obj)
                    return 'accept'
                if p['program'] == 'tester':
                    return 'accept' if is_bearable(obj, target, **kw) else 'reject'
                die_if_unbearable(obj, target, **kw)
                return 'accept'
            except Exception as e:
                return 'raise:' + type(e).__name__
        finally:
            PIN.value = None
    a = ask()
    with fresh_beartype():
        b = ask()
    if a != b:
        return True, f'after the history: {a}; fresh beartype: {b}; object {universe.build(p["obj"])!r}, target {target!r}'
    return False, f'both {a}'
