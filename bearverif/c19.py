"""C19 — is_subhint is sound with respect to checking (Engine G; partial: soundness clause).

For every ordered pair (A, B) of an enumerated hint set the *real* ``is_subhint(A, B)`` is called;
whenever it answers True the solver must show ``[[A]](x) and not [[B]](x)`` unsatisfiable over the
whole object universe (full depth).  A sat model is a concrete object fully satisfying A and
violating B.  Reflexivity / transitivity / TypeHint coherence are concrete observations evaluated
on the same hints and reported as side conditions (not solver coverage).
"""
from __future__ import annotations
import time
import traceback
import typing
from typing import Any
import z3

from . import grammar, refsem
from .engine_g import CaseOut
from .core import write_replay
from .universe import Universe, Unsupported


def hint_pool(tier, seed):
    hs = grammar.hints_depth1(leaves=grammar.LEAVES, core=grammar.CORE_LEAVES[:4])
    out = []
    for name, h in hs:
        if 'Any' in name or name in ('object',) or 'Callable' in name:
            continue            # the property excludes Any; object is Any's twin
        out.append((name, h))
    if tier == 'quick':
        # every leaf, every unary family over 4 leaves, a spread of binaries
        keep = []
        for i, (name, h) in enumerate(out):
            if '[' not in name or any(name.endswith(f'[{l}]') for l in ('int', 'str', 'UA', 'Lit1', 'bool', 'object', 'TU', 'TB')) \
                    or (',' in name and i % 5 == 0):
                keep.append((name, h))
        out = keep[:230]
    else:
        out = out[:420] + grammar.hints_depth2_curated()[::9]
    return out


def cases(tier, seed):
    pool = hint_pool(tier, seed)
    return [(name, i, {}, {'gen': 'c19', 'tier': tier, 'seed': seed, 'name': name}) for i, (name, h) in enumerate(pool)]


_POOL = {}


def pool_for(tier, seed):
    k = (tier, seed)
    if k not in _POOL:
        _POOL[k] = hint_pool(tier, seed)
    return _POOL[k]


def run_case(prop, name, idx, confkw, tier, src):
    """One case = hint A against every B of the pool."""
    from beartype.door import is_subhint, TypeHint
    from beartype.roar import BeartypeDoorException, BeartypeException
    out = CaseOut(name, confkw)
    t0 = time.time()
    pool = pool_for(src['tier'], src['seed'])
    A = pool[idx][1]
    try:
        nodeA = refsem.parse(A)
    except Unsupported as e:
        out.skipped = f'reference semantics: {e}'
        return out
    trues = []
    side = {'reflexive': None, 'unexpected_exceptions': 0, 'typehint_identity': None}
    for j, (bname, B) in enumerate(pool):
        try:
            r = is_subhint(A, B)
        except BeartypeException:
            continue
        except Exception as e:
            side['unexpected_exceptions'] += 1
            out.findings.append({'kind': 'c19_exception', 'program': 'is_subhint', 'label': f'is_subhint({name}, {bname}) raised {type(e).__name__}',
                                 'replay': write_replay('C19', {'kind': 'c19_exception', 'hint': src, 'a': name, 'b': bname}),
                                 'detail': f'{type(e).__name__}: {e}', 'hint': f'{name} <= {bname}', 'confkw': {}})
            continue
        if r:
            trues.append((j, bname, B))
    # concrete side conditions
    try:
        side['reflexive'] = bool(is_subhint(A, A))
        side['typehint_identity'] = TypeHint(A) is TypeHint(A)
        th = TypeHint(A)
        kids = list(th)
        side['len_iter_agree'] = (len(th) == len(kids)) and all(th[i] is k or th[i] == k for i, k in enumerate(kids))
    except Exception as e:
        side['error'] = f'{type(e).__name__}: {e}'
    out.observations.append(f'side conditions: {side}')
    out.side = side
    out.pairs = len(pool)
    out.trues = len(trues)
    for j, bname, B in trues:
        try:
            nodeB = refsem.parse(B)
        except Unsupported:
            continue
        out.obligations += 1
        try:
            U = Universe(3)
            x = U.obj('x')
            sem = refsem.Sem(U)
            fa = sem.full(nodeA, x)
            fb = sem.full(nodeB, x)
            s = z3.Solver()
            s.set('timeout', 10000)
            s.add(U.constraints())
            s.add(fa, z3.Not(fb))
            t1 = time.time()
            r = str(s.check())
            out.solver_s += time.time() - t1
            out.queries += 1
        except Unsupported as e:
            out.inconclusive.append(f'{name} <= {bname}: unsupported {e}')
            continue
        if r == 'unsat':
            out.discharged += 1
            continue
        if r == 'unknown':
            out.inconclusive.append(f'{name} <= {bname}: solver unknown')
            continue
        m = s.model()
        spec = U.reify(m, x)
        payload = {'property': 'C19', 'kind': 'c19', 'hint': src, 'a': name, 'b': bname, 'obj': spec}
        path = write_replay('C19', payload)
        from .replay import replay_subprocess
        ok, detail = replay_subprocess(path)
        if ok:
            out.findings.append({'kind': 'c19', 'program': 'is_subhint', 'label': f'is_subhint({name}, {bname}) is True',
                                 'replay': path, 'detail': detail, 'hint': f'{name} <= {bname}', 'confkw': {}})
        else:
            out.inconclusive.append(f'{name} <= {bname}: model did not reproduce ({detail})')
    out.nontrivial = len(trues) > 1
    out.sample = {'A': name, 'is_subhint_true_for': [b for _j, b, _B in trues][:8],
                  'obligation': 'unsat([[A]](x) & ~[[B]](x)) for every B with is_subhint(A, B)'}
    out.wall = time.time() - t0
    return out


def replay_c19(p):
    from beartype.door import is_subhint, is_bearable
    from beartype import BeartypeConf, BeartypeStrategy
    from . import universe
    pool = dict(hint_pool(p['hint']['tier'], p['hint']['seed']))
    if p['kind'] == 'c19_exception':
        try:
            is_subhint(pool[p['a']], pool[p['b']])
        except Exception as e:
            from beartype.roar import BeartypeException
            if not isinstance(e, BeartypeException):
                return True, f'is_subhint({p["a"]}, {p["b"]}) raised {type(e).__name__}: {e}'
        return False, 'no foreign exception'
    A, B = pool[p['a']], pool[p['b']]
    obj = universe.build(p['obj'])
    if not is_subhint(A, B):
        return False, 'is_subhint is False'
    ca = refsem.conforms(obj, refsem.parse(A))
    cb = refsem.conforms(universe.build(p['obj']), refsem.parse(B))
    if ca and not cb:
        # confirm with beartype's own exhaustive strategy where it applies
        on = BeartypeConf(strategy=BeartypeStrategy.On)
        ba = is_bearable(universe.build(p['obj']), A, conf=on)
        bb = all(is_bearable(universe.build(p['obj']), B, conf=on) for _ in range(1))
        return True, (f'is_subhint({p["a"]}, {p["b"]}) is True, yet {obj!r} fully satisfies A and violates B '
                      f'(beartype itself: is_bearable(obj, A)={ba}, is_bearable(obj, B)={bb})')
    return False, f'object conforms to A: {ca}, to B: {cb}'
