"""C19 — is_subhint is sound with respect to checking (Engine G; partial: soundness clause).

For every ordered pair (A, B) of an enumerated hint set the *real* ``is_subhint(A, B)`` is called;
whenever it answers True the solver must show ``[[A]](x) and not [[B]](x)`` unsatisfiable over the
whole object universe (full depth).  A sat model is a concrete object fully satisfying A and
violating B.  Reflexivity / transitivity / TypeHint coherence are concrete observations evaluated
on the same hints and reported as side conditions (not solver coverage).
"""
from __future__ import annotations
import time
import traceback
import typing
from typing import Any
import z3

from . import grammar, refsem
from .engine_g import CaseOut
from .core import write_replay
from .universe import Universe, Unsupported




def _twin_cls(registered):
    import abc
    C = abc.ABCMeta('Twin', (), {'__module__': 'bearverif.c19', '__qualname__': 'Twin'})
    C.register(registered)
    return C


# different hints with one repr(): same-named type variables, classes and new types
TWIN_TI, TWIN_TS = typing.TypeVar('Twin', bound=int), typing.TypeVar('Twin', bound=str)
TWIN_CA, TWIN_CI = _twin_cls(grammar.uc.UA), _twin_cls(int)
TWIN_NI, TWIN_NS = typing.NewType('NTwin', int), typing.NewType('NTwin', str)
# callables: the checker only ever tests callable(), so satisfaction of any Callable[...] hint is "is callable";
# unsound answers across kinds (Callable[...] <= int) and the laws of the relation are what is decided here
import collections.abc as _cabc
CALLABLES = [('CallableBare', typing.Callable), ('Callable[[int],str]', typing.Callable[[int], str]),
             ('Callable[...,int]', typing.Callable[..., int]), ('Callable[[],None]', typing.Callable[[], None]),
             ('Callable[[int,str],bool]', typing.Callable[[int, str], bool]), ('Callable[[object],str]', typing.Callable[[object], str]),
             ('Callable[[bool],str]', typing.Callable[[bool], str]), ('Callable[[int],object]', typing.Callable[[int], object]),
             ('abc.Callable[[int],str]', _cabc.Callable[[int], str]), ('Optional[Callable[[int],str]]', typing.Optional[typing.Callable[[int], str]]),
             ('List[Callable[[int],str]]', typing.List[typing.Callable[[int], str]])]
# union-like children nested more than one level deep (a type variable bounded by a union / by another
# bounded type variable, inside a union)
TBU = grammar.TBU
TSB = typing.TypeVar('TSB', bound=grammar.TB)
DEEP_UNIONS = [('TBU', TBU), ('Optional[TBU]', typing.Optional[TBU]), ('TSB', TSB), ('Optional[TSB]', typing.Optional[TSB]),
               ('Union[TSB,str]', typing.Union[TSB, str]), ('List[Optional[TBU]]', typing.List[typing.Optional[TBU]])]
# Annotated hints with two metadata objects, repeated and in both orders
_VP1, _VP2, _VE1 = grammar.make_validator(('is', grammar.P1)), grammar.make_validator(('is', grammar.P2)), grammar.make_validator(('eq', 1))
ANNOTATED2 = [('Annotated[int,P1,P1]', typing.Annotated[int, _VP1, _VP1]), ('Annotated[int,P1,P2]', typing.Annotated[int, _VP1, _VP2]),
              ('Annotated[int,P2,P1]', typing.Annotated[int, _VP2, _VP1]), ('Annotated[int,P2,P2]', typing.Annotated[int, _VP2, _VP2]),
              ('Annotated[int,eq1,P1]', typing.Annotated[int, _VE1, _VP1]), ('Annotated[int,eq1,eq1]', typing.Annotated[int, _VE1, _VE1]),
              ('Annotated[int,P1]', typing.Annotated[int, _VP1]), ('Annotated[int,P1,P1,P2]', typing.Annotated[int, _VP1, _VP1, _VP2]),
              ('Annotated[int,P1,P2,P2]', typing.Annotated[int, _VP1, _VP2, _VP2]), ('List[Annotated[int,P1,P1]]', typing.List[typing.Annotated[int, _VP1, _VP1]]),
              ('List[Annotated[int,P1,P2]]', typing.List[typing.Annotated[int, _VP1, _VP2]])]
TWINS = [('TwinTI', TWIN_TI), ('TwinTS', TWIN_TS), ('List[TwinTS]', typing.List[TWIN_TS]), ('List[TwinTI]', typing.List[TWIN_TI]),
         ('Optional[TwinTI]', typing.Optional[TWIN_TI]), ('Optional[TwinTS]', typing.Optional[TWIN_TS]),
         ('TwinCA', TWIN_CA), ('TwinCI', TWIN_CI), ('List[TwinCI]', typing.List[TWIN_CI]), ('List[TwinCA]', typing.List[TWIN_CA]),
         ('list[TwinCA]', list[TWIN_CA]), ('list[TwinCI]', list[TWIN_CI]), ('TwinCA|None', TWIN_CA | None), ('TwinCI|None', TWIN_CI | None),
         ('Dict[str,TwinCI]', typing.Dict[str, TWIN_CI]), ('Dict[str,TwinCA]', typing.Dict[str, TWIN_CA]),
         ('TwinNS', TWIN_NS), ('TwinNI', TWIN_NI), ('List[TwinNS]', typing.List[TWIN_NS]), ('List[TwinNI]', typing.List[TWIN_NI])]


# fixed-length tuples of every small arity, the empty one included, in both spellings and inside a union: arity is
# part of the meaning, and the empty tuple is where "all children ..." shortcuts turn vacuous
ARITIES = [
    ('Tuple[()]', typing.Tuple[()]), ('tuple[()]', tuple[()]), ('Tuple[int]', typing.Tuple[int]), ('tuple[int]', tuple[int]),
    ('Tuple[int,int]', typing.Tuple[int, int]), ('Tuple[bytes]', typing.Tuple[bytes]), ('Tuple[int,...]', typing.Tuple[int, ...]),
    ('Union[Tuple[int],str]', typing.Union[typing.Tuple[int], str]), ('Union[Tuple[()],str]', typing.Union[typing.Tuple[()], str]),
    ('Tuple[Tuple[()]]', typing.Tuple[typing.Tuple[()]]),
]


def hint_pool(tier, seed):
    hs = grammar.hints_depth1(leaves=grammar.LEAVES, core=grammar.CORE_LEAVES[:4])
    out = []
    for name, h in hs:
        if 'Any' in name or name in ('object',) or 'Callable' in name:
            continue            # the property excludes Any; object is Any's twin
        out.append((name, h))
    if tier == 'quick':
        # every leaf, every unary family over 4 leaves, a spread of binaries
        keep = []
        for i, (name, h) in enumerate(out):
            if '[' not in name or any(name.endswith(f'[{l}]') for l in ('int', 'str', 'UA', 'Lit1', 'bool', 'object', 'TU', 'TB')) \
                    or (',' in name and i % 5 == 0):
                keep.append((name, h))
        out = keep[:230] + grammar.annotated_hints(1, limit=24)[:24] + [h for h in grammar.special_hints() if 'Any' not in h[0] and 'LiteralString' not in h[0] and 'Unpack' not in h[0] and '*tuple' not in h[0] and 'ARec' not in h[0]][::4] + TWINS + CALLABLES + DEEP_UNIONS + ANNOTATED2 + ARITIES
    else:
        quick = hint_pool('quick', seed)
        out = quick + out[:700] + grammar.special_hints() + grammar.hints_depth2_curated()[::4] + [
            ('Union[TB,str]', typing.Union[grammar.TB, str]), ('Union[TC,None]', typing.Optional[grammar.TC]),
            ('Optional[NTInt]', typing.Optional[grammar.NTInt]), ('Union[TL,int]', typing.Union[grammar.TL, int]),
            ('TBU', TBU), ('Optional[TBU]', typing.Optional[TBU]), ('List[Optional[TB]]', typing.List[typing.Optional[grammar.TB]])]
        # LiteralString and PEP 646 unpacked tuples are not among the hint kinds the property quantifies over (the door API wraps it as
        # a class hint with origin `object`, so everything is a subhint of it); left out, see DESIGN 8.3
        keep_callables = {n for n, _h in CALLABLES}
        out = [(n, h) for n, h in out if 'Any' not in n and 'object' != n and ('Callable' not in n or n in keep_callables) and 'LiteralString' not in n
               and 'Unpack' not in n and '*tuple' not in n and 'ARec' not in n]   # (ARec: reference semantics of recursive aliases is a two-sided under-approximation, unusable on the right of <=)
        seen, ded = set(), []
        for n, h in out:
            if n not in seen:
                seen.add(n)
                ded.append((n, h))
        out = ded
    return out


def cases(tier, seed):
    pool = hint_pool(tier, seed)
    return [(name, i, {}, {'gen': 'c19', 'tier': tier, 'seed': seed, 'name': name}) for i, (name, h) in enumerate(pool)]


_POOL = {}
_HISTORY = []      # rows this (worker) process has evaluated so far: what a replay must redo first


def pool_for(tier, seed):
    k = (tier, seed)
    if k not in _POOL:
        _POOL[k] = hint_pool(tier, seed)
    return _POOL[k]


def run_case(prop, name, idx, confkw, tier, src):
    """One case = hint A against every B of the pool."""
    from beartype.door import is_subhint, TypeHint
    from beartype.roar import BeartypeDoorException, BeartypeException
    out = CaseOut(name, confkw)
    t0 = time.time()
    pool = pool_for(src['tier'], src['seed'])
    A = pool[idx][1]
    rows_before = list(_HISTORY)
    _HISTORY.append(idx)
    try:
        nodeA = refsem.parse(A)
    except Unsupported as e:
        out.skipped = f'reference semantics: {e}'
        return out
    trues = []
    undecided = []
    side = {'reflexive': None, 'unexpected_exceptions': 0, 'typehint_identity': None}
    for j, (bname, B) in enumerate(pool):
        try:
            r = is_subhint(A, B)
        except BeartypeException:
            undecided.append(j)     # beartype declares the pair undecidable: neither True nor False
            continue
        except Exception as e:
            side['unexpected_exceptions'] += 1
            out.findings.append({'kind': 'c19_exception', 'program': 'is_subhint', 'label': f'is_subhint({name}, {bname}) raised {type(e).__name__}',
                                 'replay': write_replay('C19', {'kind': 'c19_exception', 'hint': src, 'a': name, 'b': bname, 'rows_before': rows_before}),
                                 'detail': f'{type(e).__name__}: {e}', 'hint': f'{name} <= {bname}', 'confkw': {}})
            continue
        if r:
            trues.append((j, bname, B))
    # concrete side conditions
    try:
        side['reflexive'] = bool(is_subhint(A, A))
        side['typehint_identity'] = TypeHint(A) is TypeHint(A)
        th = TypeHint(A)
        kids = list(th)
        side['len_iter_agree'] = (len(th) == len(kids)) and all(th[i] is k or th[i] == k for i, k in enumerate(kids))
    except Exception as e:
        side['error'] = f'{type(e).__name__}: {e}'
    out.observations.append(f'side conditions: {side}')
    out.side = side
    out.pairs = len(pool)
    out.trues = len(trues)
    out.true_idx = [j for j, _b, _B in trues]
    out.row = idx
    # equal wrappers must hash alike (concrete observation on the pairs that are mutual subhints)
    out.eqhash_bad = []
    try:
        tha = TypeHint(A)
        for j, bname, B in trues:
            if j <= idx:
                continue
            thb = TypeHint(B)
            if tha == thb and hash(tha) != hash(thb):
                out.eqhash_bad.append(j)
    except Exception:
        pass
    out.undecided_idx = undecided
    for j, bname, B in trues:
        try:
            nodeB = refsem.parse(B)
        except Unsupported:
            continue
        out.obligations += 1
        try:
            U = Universe(3)
            x = U.obj('x')
            sem = refsem.Sem(U)
            fa = sem.full(nodeA, x)
            fb = sem.full(nodeB, x)
            s = z3.Solver()
            s.set('timeout', 10000)
            s.add(U.constraints())
            s.add(fa, z3.Not(fb))
            t1 = time.time()
            r = str(s.check())
            out.solver_s += time.time() - t1
            out.queries += 1
        except Unsupported as e:
            out.inconclusive.append(f'{name} <= {bname}: unsupported {e}')
            continue
        if r == 'unsat':
            out.discharged += 1
            continue
        if r == 'unknown':
            out.inconclusive.append(f'{name} <= {bname}: solver unknown')
            continue
        m = s.model()
        spec = U.reify(m, x)
        payload = {'property': 'C19', 'kind': 'c19', 'hint': src, 'a': name, 'b': bname, 'obj': spec, 'rows_before': rows_before}
        path = write_replay('C19', payload)
        from .replay import replay_subprocess
        ok, detail = replay_subprocess(path)
        if ok:
            out.findings.append({'kind': 'c19', 'program': 'is_subhint', 'label': f'is_subhint({name}, {bname}) is True',
                                 'replay': path, 'detail': detail, 'hint': f'{name} <= {bname}', 'confkw': {}})
        else:
            out.inconclusive.append(f'{name} <= {bname}: model did not reproduce ({detail})')
    out.nontrivial = len(trues) > 1
    out.sample = {'A': name, 'is_subhint_true_for': [b for _j, b, _B in trues][:8],
                  'obligation': 'unsat([[A]](x) & ~[[B]](x)) for every B with is_subhint(A, B)'}
    out.wall = time.time() - t0
    return out


def replay_c19(p):
    from beartype.door import is_subhint, is_bearable
    from beartype import BeartypeConf, BeartypeStrategy
    from . import universe
    plist = hint_pool(p['hint']['tier'], p['hint']['seed'])
    pool = dict(plist)
    # the answers of the door API are memoised: redo what the reporting process had asked before
    for r in list(p.get('rows_before', [])) + ([[n for n, _h in plist].index(p['a'])] if p.get('a') in pool and 'rows_before' in p else []):
        for bn, B in plist:
            try:
                is_subhint(plist[r][1], B)
            except Exception:
                pass
            if r == len(plist) and bn == p.get('b'):
                break
    if p['kind'] == 'c19_exception':
        try:
            is_subhint(pool[p['a']], pool[p['b']])
        except Exception as e:
            from beartype.roar import BeartypeException
            if not isinstance(e, BeartypeException):
                return True, f'is_subhint({p["a"]}, {p["b"]}) raised {type(e).__name__}: {e}'
        return False, 'no foreign exception'
    if p['kind'] == 'c19_transitivity':
        A, B, C = pool[p['a']], pool[p['b']], pool[p['c']]
        ab, bc, ac = is_subhint(A, B), is_subhint(B, C), is_subhint(A, C)
        if ab and bc and not ac:
            return True, f'is_subhint({p["a"]}, {p["b"]}) and is_subhint({p["b"]}, {p["c"]}) are True but is_subhint({p["a"]}, {p["c"]}) is False'
        return False, f'a<=b {ab}, b<=c {bc}, a<=c {ac}'
    if p['kind'] == 'c19_eqhash':
        from beartype.door import TypeHint
        ta, tb = TypeHint(pool[p['a']]), TypeHint(pool[p['b']])
        return (ta == tb and hash(ta) != hash(tb)), f'TypeHint({p["a"]}) == TypeHint({p["b"]}): {ta == tb}; hashes equal: {hash(ta) == hash(tb)}'
    if p['kind'] == 'c19_reflexivity':
        A = pool[p['a']]
        return (not is_subhint(A, A)), f'is_subhint({p["a"]}, {p["a"]}) = {is_subhint(A, A)}'
    A, B = pool[p['a']], pool[p['b']]
    obj = universe.build(p['obj'])
    if not is_subhint(A, B):
        return False, 'is_subhint is False'
    ca = refsem.conforms(obj, refsem.parse(A))
    cb = refsem.conforms(universe.build(p['obj']), refsem.parse(B))
    if ca and not cb:
        # confirm with beartype's own exhaustive strategy where it applies
        on = BeartypeConf(strategy=BeartypeStrategy.On)
        ba = is_bearable(universe.build(p['obj']), A, conf=on)
        bb = all(is_bearable(universe.build(p['obj']), B, conf=on) for _ in range(1))
        return True, (f'is_subhint({p["a"]}, {p["b"]}) is True, yet {obj!r} fully satisfies A and violates B '
                      f'(beartype itself: is_bearable(obj, A)={ba}, is_bearable(obj, B)={bb})')
    return False, f'object conforms to A: {ca}, to B: {cb}'


LAWS_INCONCLUSIVE = []


def _spelling(name):
    """Name of a pool hint with the differences erased that are known to give equal-but-differently-hashing
    wrappers: typing vs PEP 585 / collections.abc spelling, `Any` vs `object` children, bare vs [Any]-subscripted."""
    import re
    n = name.replace('abc.', '').replace('collections.', '')
    n = re.sub(r'\b(List|Dict|Set|FrozenSet|Tuple|Type|Deque|DefaultDict|OrderedDict|Counter|ChainMap)\b', lambda m: m.group(1).lower(), n)
    n = n.replace('Tuple...', 'tuple...').replace('Tuple1', 'tuple1').replace('Tuple2', 'tuple2')
    n = re.sub(r'\b(Any|object|TU)\b', 'ANY', n)
    n = re.sub(r'\[(ANY,?)+\]', '', n)
    n = re.sub(r'^tuple\.\.\.$', 'tuple', n)
    return n.lower()


def relation_laws(outs, tier, seed):
    """Reflexivity and transitivity of the relation the real is_subhint computed over the pool (a
    table of concrete answers, not a solver verdict).  Pairs on which beartype raises its
    'undecidable' exception count as neither True nor False.  One finding per missing edge."""
    pool = pool_for(tier, seed)
    rel, und, names = {}, {}, {}
    for o in outs:
        if getattr(o, 'row', None) is None or o.skipped:
            continue
        rel[o.row] = set(o.true_idx)
        und[o.row] = set(getattr(o, 'undecided_idx', ()))
        names[o.row] = o.name
    src = {'gen': 'c19', 'tier': tier, 'seed': seed}
    findings, chains, missing = [], 0, {}
    for a, ta in rel.items():
        if getattr(next((o for o in outs if getattr(o, 'row', None) == a), None), 'side', {}).get('reflexive') is False:
            findings.append({'kind': 'c19_reflexivity', 'program': 'is_subhint', 'label': f'is_subhint({names[a]}, {names[a]}) is False',
                             'replay': write_replay('C19', {'property': 'C19', 'kind': 'c19_reflexivity', 'hint': src, 'a': names[a]}),
                             'detail': 'not reflexive', 'hint': f'{names[a]} <= {names[a]}', 'confkw': {}})
        for b in ta:
            for c in rel.get(b, ()):
                chains += 1
                if c not in ta and c not in und[a] and (a, c) not in missing:
                    missing[(a, c)] = b
    for o in outs:
        for j in getattr(o, 'eqhash_bad', ()):
            na, nb = pool[o.row][0], pool[j][0]
            fam = 'spelling' if _spelling(na) == _spelling(nb) else 'other'
            findings.append({'kind': 'c19_eqhash', 'program': 'TypeHint', 'family': fam,
                             'label': f'TypeHint({na}) == TypeHint({nb}) but their hashes differ',
                             'replay': write_replay('C19', {'property': 'C19', 'kind': 'c19_eqhash', 'hint': src, 'a': na, 'b': nb}),
                             'detail': f'equal wrappers with different hashes ({fam})', 'hint': f'{na} == {nb}', 'confkw': {}})
    for (a, c), b in missing.items():
        na, nb, nc = pool[a][0], pool[b][0], pool[c][0]
        findings.append({'kind': 'c19_transitivity', 'program': 'is_subhint',
                         'label': f'{na} <= {nb} <= {nc} but not {na} <= {nc}',
                         'replay': write_replay('C19', {'property': 'C19', 'kind': 'c19_transitivity', 'hint': src, 'a': na, 'b': nb, 'c': nc}),
                         'detail': f'is_subhint({na}, {nb}) and is_subhint({nb}, {nc}) hold, is_subhint({na}, {nc}) is False',
                         'hint': f'{na} <= {nc}', 'confkw': {}})
    # replay before reporting (fresh interpreter, the public function only); a breach that does not
    # reproduce there depends on what was asked before and is reported as inconclusive, not as a pass
    from .replay import replay_subprocess
    confirmed, unconfirmed = [], []
    for f in findings[:40]:
        ok, detail = replay_subprocess(f['replay'])
        (confirmed if ok else unconfirmed).append((f, detail))
    findings = [f for f, _d in confirmed]
    LAWS_INCONCLUSIVE[:] = [(f['hint'], {}, f'{f["label"]}: not reproduced in a fresh interpreter ({d})') for f, d in unconfirmed]
    return findings, {'chains_a_le_b_le_c_examined': chains, 'missing_edges': len(missing),
                      'pairs_beartype_calls_undecidable': sum(len(v) for v in und.values()),
                      'note': 'reflexivity and transitivity are laws of the concretely computed relation over the enumerated hints: '
                              'a table, reported as found, not solver coverage'}
