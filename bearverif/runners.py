"""Check runners: enumerate cases, shard them over processes, aggregate, report, write evidence."""
from __future__ import annotations
import multiprocessing as mp
import os
import sys
import time

from . import evidence

_CASES = None      # (name, hint, confkw, src) list, inherited by forked workers
_PROP = None
_TIER = None
_RUNCASE = None


def _work(i):
    from . import core
    name, hint, confkw, src = _CASES[i]
    before = core.second_snapshot()
    out = _RUNCASE(_PROP, name, hint, confkw, _TIER, src)
    try:
        out.second = core.second_delta(before)
    except Exception:
        pass
    return i, out


# thorough tier: C02's obligations (MR, S_r, reachability per index) are the most solver-heavy of the family
THOROUGH_STRIDE = {'C02': 4, 'C01': 2}


def hint_cases(prop, tier, seed):
    from . import grammar
    hs = grammar.hint_set(tier, seed)
    if tier != 'quick' and prop in THOROUGH_STRIDE:
        # sized by wall time: everything of the quick set, every k-th hint of the rest of the thorough grammar
        quick_names = {n for n, _h in grammar.hint_set('quick', seed)}
        k = THOROUGH_STRIDE[prop]
        rest = [x for x in hs if x[0] not in quick_names]
        if prop == 'C01':
            # every 8th of the random depth-3 hints (the full 2 000 pushed the run past 90 minutes)
            seeded = [n for n, _h in grammar.seeded_hints(seed, 2000)]
            drop = set(seeded) - set(seeded[::8])
            rest = [x for x in rest if x[0] not in drop]
        if prop == 'C02':
            # the randomly generated depth-3 hints make C02's per-index reachability queries run into the solver
            # budget one after the other (measured: the last 1 500 of 11 500 cases took longer than the first 10 000)
            seeded = {n for n, _h in grammar.seeded_hints(seed, 2000)}
            rest = [x for x in rest if x[0] not in seeded]
        hs = [x for x in hs if x[0] in quick_names] + rest[(seed % k)::k]
    confs = grammar.conf_set(tier)
    cases = []
    import re
    seqish = re.compile(r'List|list|Sequence|Tuple\.\.\.|tuple\.\.\.|Iterable|Container|Reversible|Collection')
    for name, h in hs:
        for ckw in confs:
            if ckw.get('is_random') is False and not seqish.search(name):
                continue     # is_random only changes how sequences are indexed
            if ckw.get('is_pep484_tower') and not re.search(r'float|complex', name):
                continue     # the tower only reinterprets float / complex
            if ckw.get('strategy') == 'On' and (hash(name) % 4):
                continue     # On generates the same checker code as O1 today: a quarter is compared
            cases.append((name, h, ckw, {'gen': 'hint_set', 'tier': tier, 'seed': seed, 'name': name}))
    return cases


FUNCS_ENCODED = {
    'common': ['beartype._check.code.codemain:make_check_expr',
               'beartype._check.checkmake:make_func_checker',
               'beartype._check.checkmake:make_code_tester_check',
               'beartype._check.checkmake:make_code_raiser_hint_object_check',
               'beartype._check.checkmake:make_code_raiser_func_pith_check',
               'beartype._check.cls.logic.logcls',
               'beartype._data.check.code.pep.datacodepep484585',
               'beartype._data.check.code.pep.datacodepep586',
               'beartype._data.check.code.pep.datacodepep593',
               'beartype._data.check.code.pep.datacodepep484604',
               'beartype._data.check.code.func.datacodefuncwrap',
               'beartype._data.check.code.func.datacodefunccheck',
               'beartype._decor._nontype._wrap._wrapargs',
               'beartype._decor._nontype._wrap._wrapreturn',
               'beartype._check.convert._reduce.redmain:reduce_hint',
               'beartype.door._func.doorfunc:is_bearable',
               'beartype.door._func.doorfunc:die_if_unbearable'],
}

ASSUMPTIONS_G = [
    'object universe of DESIGN.md section 2: ~45 real classes, isinstance table computed by real isinstance() on sample instances',
    'sequences index consistently with iteration; len consistent with iteration; mapping lookup on an iterated key returns its value',
    'pathological user classes (lying __len__, __eq__ returning non-bool, __class__ spoofing) are outside the claim',
    'reference semantics [[H]] / MR[H] / S_r[H] written from the PEPs and the README (refsem.py), shares no code with beartype',
    'z3 (python wheel) trusted; unbounded-length mode only trusted for unsat',
    'enumerated: hints and configurations (grammar.py); decided by the solver: all objects of the universe and all 32-bit draws',
]


def run_hint_family(prop, tier, seed, jobs, limit, run_case=None, cases=None, level='translation_validation',
                    explanation=None, extra_assumptions=(), funcs=None, post=None, extra=None):
    """Generic runner for properties whose cases are (hint, conf) pairs handled by engine_g."""
    global _CASES, _PROP, _TIER, _RUNCASE
    t0 = time.time()
    from . import engine_g
    _RUNCASE = run_case or engine_g.run_case
    _PROP, _TIER = prop, tier
    _CASES = cases if cases is not None else hint_cases(prop, tier, seed)
    only = os.environ.get('VERIF_ONLY')
    if only:
        import re
        _CASES = [c for c in _CASES if re.search(only, c[0])]
    if limit:
        _CASES = _CASES[:limit]
    n = len(_CASES)
    outs = [None] * n
    if jobs <= 1:
        for i in range(n):
            outs[i] = _work(i)[1]
    else:
        ctx = mp.get_context('fork')
        with ctx.Pool(min(jobs, max(1, n))) as pool:
            done = 0
            for i, out in pool.imap_unordered(_work, range(n), chunksize=4):
                outs[i] = out
                done += 1
                if done % 2000 == 0:
                    print(f'[{prop} {tier}] {done}/{n} cases, {time.time() - t0:.0f}s', file=sys.stderr, flush=True)
    return report(prop, tier, seed, outs, time.time() - t0, level, explanation, extra_assumptions, funcs, post,
                  extra)


def report(prop, tier, seed, outs, wall, level, explanation, extra_assumptions, funcs, post=None, extra=None):
    """extra: optional dict {findings: [...], inconclusive: [(name, conf, why)], coverage: {...},
    assumptions: [...], wall: float} contributed by another engine (Engine X / P)."""
    known = evidence.load_known()
    violations, known_hits, inconclusive, skipped = [], [], [], []
    if callable(extra):
        extra = extra(outs)
    if extra:
        for f in extra.get('findings', []):
            k = evidence.match_known(prop, f, known)
            (known_hits if k else violations).append((f, k))
        inconclusive.extend(extra.get('inconclusive', []))
        wall += extra.get('wall', 0.0)
    obligations = discharged = queries = 0
    solver_s = 0.0
    unb = {'unsat': 0, 'sat': 0, 'unknown': 0}
    nontrivial = set()
    samples = []
    observations = []
    second = {'asked': 0, 'unsat': 0, 'unknown': 0, 'sat': 0, 'error': 0, 'time_s': 0.0}
    for o in outs:
        sd = getattr(o, 'second', None)
        if sd:
            for k in second:
                second[k] += sd.get(k, 0)
            for h in sd.get('disagreements', []):
                inconclusive.append((o.name, o.confkw, f'HARNESS-ERROR solver disagreement: z3 unsat, cvc5 sat (build/disagree-{h}.smt2)'))
        if o.skipped:
            skipped.append((o.name, o.skipped))
            continue
        obligations += o.obligations
        discharged += o.discharged
        queries += o.queries
        solver_s += o.solver_s
        for k in unb:
            unb[k] += o.unbounded.get(k, 0)
        if o.nontrivial:
            nontrivial.add(o.name)
        if o.sample and len(samples) < 5 and (o.nontrivial or not samples):
            samples.append(o.sample)
        for ob in o.observations[:2]:
            if len(observations) < 10:
                observations.append(f'{o.name} {o.confkw}: {ob}')
        for inc in o.inconclusive:
            inconclusive.append((o.name, o.confkw, inc))
        for f in o.findings:
            k = evidence.match_known(prop, f, known)
            (known_hits if k else violations).append((f, k))
    if os.environ.get('VERIF_DUMP_FINDINGS'):
        import json as _json
        with open(os.environ['VERIF_DUMP_FINDINGS'], 'w') as _f:
            _json.dump({'violations': [f for f, _k in violations], 'known': [dict(f, known=k['what'][:60]) for f, k in known_hits],
                        'inconclusive': [list(map(str, i)) for i in inconclusive]}, _f, indent=1, default=str)
    seen = set()
    for f, k in known_hits:
        if k['what'] not in seen:
            seen.add(k['what'])
            print(f'KNOWN-FINDING: property={prop} {k["what"]}')
    for f, _ in violations[:20]:
        print(f'VIOLATION property={prop} replay={f["replay"]}')
        print(f'  hint={f["hint"]} conf={f["confkw"]} {f["label"]}: {f["detail"]}')
    for name, ckw, inc in inconclusive[:20]:
        print(f'INCONCLUSIVE property={prop} hint={name} conf={ckw}: {inc}')
    cov = {
        'programs': sum(1 for o in outs if not o.skipped),
        'disagreements_checked': len(violations) + len(known_hits),
        'samples': samples or [{'note': 'no case produced a sample'}],
        'evaluations': obligations,
        'distinct_nontrivial': len(nontrivial),
        'rule': 'one case = (hint, configuration) with its four generated programs; non-trivial = the hint is inhabited '
                'in the universe (resp. MR[H] satisfiable) and beartype generated code for it; distinct by hint name',
        'obligations': obligations,
        'discharged': discharged,
        'solver_queries': queries,
        'solver_time_s': round(solver_s, 2),
        'unbounded_mode': unb,
        'second_solver': dict(second, time_s=round(second['time_s'], 1), solver='cvc5 (python wheel)',
                              rule=f'every {__import__("bearverif.core", fromlist=["x"]).SECOND_EVERY}th z3 unsat re-decided on the exported SMT-LIB text; '
                                   'cvc5 sat = harness error; unknown/error prove nothing'),
        'skipped_unsupported_by_beartype': len(skipped),
        'skipped_examples': skipped[:5],
        'inconclusive': len(inconclusive),
        'undecided_within_solver_budget': sum(1 for i in inconclusive if 'solver unknown' in str(i[2])),
        'inconclusive_examples': [list(map(str, i)) for i in inconclusive[:5]],
        'observations': observations,
        'bounds': {'container_len_bounded_mode': '<=4 (depth<=2) / <=3 (deeper) quick; <=6/4/3 thorough',
                   'unbounded_mode': 'lengths arbitrary non-negative integers; only unsat trusted (2.5 s cap per query)',
                   'hint_depth': '<=2 quick (+ curated), <=5 thorough', 'draw': '0 <= r < 2**32'},
        'functions_encoded': evidence.source_hashes(funcs or FUNCS_ENCODED['common']),
        'known_findings_matched': len(known_hits),
        'translator_validations_against_real_function': sum(getattr(o, 'validated', 0) for o in outs),
    }
    if explanation:
        cov['explanation'] = explanation
    if extra:
        cov.update(extra.get('coverage', {}))
        extra_assumptions = list(extra_assumptions) + list(extra.get('assumptions', []))
    if post:
        post(cov, outs)
    evidence.write(prop, tier, seed, level, cov, ASSUMPTIONS_G + list(extra_assumptions), wall, len(violations))
    if extra and 'engine_x' in cov:
        x = cov['engine_x']
        print(f'{prop} [{tier}] engine X: conditions={x["conditions"]} confirmed_over_all_paths={x["confirmed_over_all_paths"]} '
              f'twins_refuted={x["reachability_twins_refuted"]} counterexamples={x["counterexamples_reproduced"]} '
              f'inconclusive={x["inconclusive"]} cpu={x["cpu_seconds"]}s')
    print(f'{prop} [{tier}] cases={cov["programs"]} obligations={obligations} discharged={discharged} '
          f'queries={queries} unbounded={unb} skipped={len(skipped)} inconclusive={len(inconclusive)} '
          f'violations={len(violations)} known={len(known_hits)} wall={wall:.1f}s solver={solver_s:.1f}s')
    if violations:
        return 1
    # verdict discipline (DESIGN 6): a solver `unknown` (z3 gave up within 10 s and again within 60 s in a fresh
    # solver) is neither a pass nor a violation.  Every one is printed above and counted in the evidence; a handful
    # of them (<= 0.1 % of the obligations and <= 25) does not fail the run, anything else inconclusive does.
    undecided = [i for i in inconclusive if 'solver unknown' in str(i[2])]
    other = [i for i in inconclusive if 'solver unknown' not in str(i[2])]
    if other or len(undecided) > min(25, max(1, obligations // 1000)):
        return 2
    if undecided:
        print(f'{prop} [{tier}] UNDECIDED within the solver budget: {len(undecided)} of {obligations} obligations '
              f'(listed above as INCONCLUSIVE, recorded in the evidence, not counted as held)')
    return 0


ASSUMPTIONS_X = [
    'Engine X: CrossHair 0.0.110 + z3 trusted; contract short-circuiting switched off (callee bodies always interpreted)',
    'Engine X: the sampler draw is a harness parameter (random.getrandbits pinned before beartype is imported)',
    'Engine X: callable_cached bypasses its memo table for CrossHair proxies; caches warmed on concrete representatives',
    'Engine X: represent_object / represent_pith have constant bodies (formatting is not the subject); items are int/bool/None',
    'Engine X: harness shapes, item types and length bounds are listed per harness in coverage.engine_x.harnesses',
]


def run_engine_x(prop, specs, jobs):
    """Run CrossHair harnesses; returns the `extra` dict for report()."""
    from .xh import harness
    from .core import write_replay
    t0 = time.time()
    res = harness.run_specs(prop, specs, jobs=jobs)
    findings, inconc, rows = [], [], []
    for sp, r in zip(specs, res):
        rows.append({'harness': r['name'], 'verdict': r['verdict'], 'seconds': r['seconds'],
                     'params': [f'{p}: {t}' for p, t in sp.params], 'pre': sp.pre})
        if r['verdict'] == 'counterexample':
            payload = {'property': prop, 'kind': 'xh', 'harness': r['name'], 'source': sp.source(),
                       'counterexample': r['text'], 'detail': r.get('detail', '')}
            path = write_replay(prop, payload)
            findings.append({'kind': 'xh', 'program': 'real API under CrossHair', 'label': r['name'],
                             'replay': path, 'detail': r.get('detail', r['text']), 'hint': r['name'], 'confkw': {}})
        elif r['verdict'] != 'confirmed':
            inconc.append((r['name'], {}, f'CrossHair: {r["text"][:300]}'))
    cov = {'engine_x': {
        'conditions': len(res), 'confirmed_over_all_paths': sum(1 for r in res if r['verdict'] == 'confirmed'),
        'counterexamples_reproduced': len(findings), 'inconclusive': len(inconc),
        'cpu_seconds': round(sum(r['seconds'] for r in res), 1), 'harnesses': rows,
        'reachability_twins_refuted': sum(1 for r in res if r.get('twin') == 'counterexample')}}
    return {'findings': findings, 'inconclusive': inconc, 'coverage': cov, 'assumptions': ASSUMPTIONS_X,
            'wall': time.time() - t0}


def _c03(prop, tier, seed, jobs, limit):
    from .xh import c03x
    extra = run_engine_x(prop, c03x.specs(tier, seed), jobs) if not limit else None
    return run_hint_family(prop, tier, seed, jobs, limit, extra=extra,
                           funcs=FUNCS_ENCODED['common'] + [
                               'beartype._check.error.errmain', 'beartype._check.error._errmap',
                               'beartype._check.error._pep.pep484585.errpep484585container',
                               'beartype._check.error._pep.pep484585.errpep484585mapping',
                               'beartype._check.error._pep.errpep484604', 'beartype._check.error._pep.errpep586',
                               'beartype._check.error._pep.errpep593', 'beartype._check.cls.logic.logcls'])


def run_x_only(prop, tier, seed, jobs, specs, explanation, funcs, assumptions=()):
    """A check decided by Engine X alone."""
    t0 = time.time()
    only = os.environ.get('VERIF_ONLY')
    if only:
        import re
        specs = [s for s in specs if re.search(only, s.name)]
    extra = run_engine_x(prop, specs, jobs)
    x = extra['coverage']['engine_x']
    extra['coverage'].update({
        'evaluations': x['conditions'], 'distinct_nontrivial': x['reachability_twins_refuted'],
        'rule': 'one evaluation = one CrossHair condition (harness) explored over all paths; non-trivial = its '
                'reachability twin was refuted (the harness body is reachable under its precondition)',
        'samples': [{'harness': h['harness'], 'params': h['params'], 'pre': h['pre'], 'verdict': h['verdict']}
                    for h in x['harnesses'][:5]],
    })
    extra['wall'] = 0.0
    return report(prop, tier, seed, [], time.time() - t0, 'other', explanation, list(assumptions), funcs, None, extra)


def _c08(prop, tier, seed, jobs, limit):
    from .xh import c08x
    return run_x_only(
        prop, tier, seed, jobs, c08x.specs(tier, seed),
        'CrossHair drives the real decorated callable and the undecorated original with the same pair of symbolic scripts: '
        'an inner script (what the scripted generator / asynchronous generator / coroutine does: yield or suspend with a payload, '
        'return a value, raise a user exception; thrown-in user exceptions are swallowed at a yield) and a driver script (next / '
        'send(v) / throw(E(v)) / close, their asynchronous forms, stepping and throwing into a suspended coroutine). After every '
        'operation the caller-visible outcome (yielded value, StopIteration value, exception class and arguments, kind of the '
        'produced object) and the body-visible events (values sent in, exceptions caught, GeneratorExit, finalisation) are '
        'recorded; the postcondition is equality of both traces, except that a coroutine result violating the return annotation '
        'must surface as the configured return violation; inspect.iscoroutinefunction / isgeneratorfunction / isasyncgenfunction '
        'must agree. Coroutines and asynchronous generators are stepped by hand (no event loop).',
        ['beartype._decor._nontype._wrap.wrapmain', 'beartype._decor._nontype._wrap._wrapreturn',
         'beartype._data.code.datacodefunc', 'beartype._decor._nontype.decornontype'],
        assumptions=['bounds: inner script of 2 (thorough: up to 3) actions, driver script of 2 (thorough: up to 3) operations plus a final '
                     'close, payloads ints in [-1, 3] (3 stands for a non-int return value); longer histories are outside the claim',
                     'the scripted original does not yield while handling GeneratorExit (the property\'s proviso), catches only its own '
                     'user exception at yields, and has one int parameter passed positionally',
                     'return annotations: Generator[int, int, int], AsyncGenerator[int, int], int; other annotations (and yielded-value '
                     'checking, which beartype does not perform) are outside',
                     'real event loops, task cancellation and asynchronous context managers are outside'])


def _c17(prop, tier, seed, jobs, limit):
    from .xh import c17x
    return run_x_only(
        prop, tier, seed, jobs, c17x.specs(tier, seed),
        'CrossHair executes the real BeartypeConf.__new__/__eq__/__hash__/kwargs symbolically on creation histories '
        'create(kw1); create(kw2)[; create(kw3)] (keyword order permuted) starting from an empty memo table. Option values '
        'are solver variables: Union[bool,int,float,None] in [-1,2] (+0.5) for boolean / tri-state options, indices into the '
        'real enum member lists plus non-members for enum options, indices into a list of valid and invalid classes for the '
        'violation_* / warning options. Which options vary in a harness is enumerated (all singles and pairs thorough). '
        'Postcondition: a creation raises BeartypeConfParamException iff the documented validity predicate fails, whatever was '
        'created before, and nothing else escapes; typed-equal kwargs give the identical object, differing ones unequal '
        'objects, hash agrees with ==, options read back, BeartypeConf(**conf.kwargs) is conf.',
        ['beartype._conf.confmain', 'beartype._conf.conftest', 'beartype._conf._confoverrides', 'beartype._conf._confget'],
        assumptions=['option values outside the listed domains (NumPy booleans, other collection values) and thread identity are outside the claim',
                     'claw_skip_package_names / hint_overrides / class-valued options range over enumerated menus of valid and invalid '
                     'values picked by a symbolic index (13 / 8-9 / 3-5 values); is_pep484_tower is varied symbolically and, in '
                     'tower_overrides, together with overrides that repeat or contradict the tower expansions',
                     'stub: FrozenDict.__or__ runs with tracing switched off (CrossHair\'s patched dict() returns a mapping shell for '
                     'which the C-level dict.__or__ answers NotImplemented); all its operands are concrete',
                     'environment: NO_COLOR unset; BEARTYPE_IS_COLOR unset except in the envcolor_* harnesses, which set it to True / False / None'])


def _c06(prop, tier, seed, jobs, limit):
    from . import c06

    def post(cov, outs):
        cov['states'] = sum(getattr(o, 'paths', 0) for o in outs)
        cov['transitions'] = cov['obligations']
        cov['traces_validated_against_impl'] = cov['states']
        cov['feasible_aliasing_paths'] = cov['states']
    return run_hint_family(
        prop, tier, seed, jobs, limit, run_case=c06.run_case, cases=c06.cases(tier, seed), level='model_checking',
        explanation='Engine P: the real claw registry functions (hook_packages, _blacklist_packages, _whitelist_packages_all/_some, '
                    'get_package_conf_or_none, is_package_blacklisted, iter_packages_trie, beartyping, add/remove path hook) run '
                    'on str-subclass proxies whose equality is a z3 term; every dict comparison forks on the feasible outcomes, so '
                    'each enumerated history skeleton is explored for every aliasing pattern of its symbolic labels. On every '
                    'feasible path the path condition must entail that each operation raised iff the declarative model conflicts, '
                    'that the final query equals the nearest registered ancestor (else beartype_all, unless skipped) and that after '
                    'a beartyping block the path hook is present iff something remains registered.',
        funcs=['beartype.claw._package.clawpkgmain', 'beartype.claw._package.clawpkgtrie',
               'beartype.claw._package.clawpkgcontext', 'beartype.claw._package._clawpkgmake',
               'beartype.claw._clawstate', 'beartype.claw._importlib.clawimpmain',
               'beartype._data.shame.module.datashamemodclaw', 'beartype.claw._importlib._clawimpfileloader:BeartypeSourceFileLoader.get_code'],
        extra_assumptions=['names are valid dotted identifiers (make_package_names_from_args replaced by a pass-through; syntax validation is outside the claim)',
                           'a symbolic label may equal the built-in excluded package name \'beartype\' (re-keyed as a label constant; the model answers None for every name below it); the other built-in excluded names and the loader-side BLACKLIST_CLAW_PACKAGE_NAMES_REGEX are outside the claim',
                           'loader side: BLACKLIST_CLAW_PACKAGE_NAMES_REGEX and the method get_code() applies it with are read from /repo, translated from re._parser\'s tree into a z3 regular expression and decided as regular-language inclusions over dotted identifiers of any length (R1 whole first label, R2 descendants, R3 beartype itself, R4 finite list); names with newlines are outside',
                           'skip lists are exercised by calling _blacklist_packages directly (the glue line in hook_packages is not)',
                           'configurations are 3 concrete, pairwise different BeartypeConf objects; equality patterns among them are enumerated by index',
                           'bounds: <= 2 operations (quick) / <= 3 (thorough) + beartyping blocks, names of <= 2 / <= 3 labels, query of <= 3 labels'],
        post=post)


def _c19(prop, tier, seed, jobs, limit):
    from . import c19
    laws_cov = {}

    def laws(outs):
        findings, cov = c19.relation_laws(outs, tier, seed)
        laws_cov.update(cov)
        return {'findings': findings, 'inconclusive': list(c19.LAWS_INCONCLUSIVE)}

    def post(cov, outs):
        cov['pairs_evaluated_by_real_is_subhint'] = sum(getattr(o, 'pairs', 0) for o in outs)
        cov['pairs_answered_true'] = sum(getattr(o, 'trues', 0) for o in outs)
        sides = [getattr(o, 'side', {}) for o in outs if getattr(o, 'side', None)]
        cov['relation_laws'] = laws_cov
        cov['concrete_side_conditions'] = {
            'reflexive_all': all(s.get('reflexive') for s in sides),
            'typehint_identity_all': all(s.get('typehint_identity') for s in sides),
            'len_iter_getitem_agree_all': all(s.get('len_iter_agree', True) for s in sides),
            'note': 'concrete observations on the enumerated hints, not solver coverage'}
    return run_hint_family(prop, tier, seed, jobs, limit, run_case=c19.run_case, cases=c19.cases(tier, seed), post=post, extra=laws,
                           funcs=['beartype.door._cls.doorsuper', 'beartype.door._cls.doormeta',
                                  'beartype.door._cls.pep.doorpep484604', 'beartype.door._cls.pep.doorpep586',
                                  'beartype.door._cls.pep.doorpep593', 'beartype.door._cls.pep.pep484585.doorpep484585tuple',
                                  'beartype.door._cls.pep.pep484585.doorpep484585subscripted', 'beartype.door._func.doorfunc:is_subhint'],
                           extra_assumptions=['only the soundness clause is decided by the solver; reflexivity and transitivity are evaluated on the table of answers the real is_subhint gave over the enumerated hints (breaches are reported and replayed, but this is enumeration, not a solver verdict); TypeHint coherence is a concrete side condition',
                                              'pairs are enumerated (the real is_subhint computes the relation); the solver quantifies over all objects of the universe at full depth, container length <= 3'])


def _c20(prop, tier, seed, jobs, limit):
    from . import c20
    return run_hint_family(prop, tier, seed, jobs, limit, run_case=c20.run_case, cases=c20.cases(tier, seed),
                           funcs=['beartype.bite._infermain', 'beartype.bite.collection.infercollectionbuiltin',
                                  'beartype.bite.collection.infercollectionsabc', 'beartype.bite.collection.infercollectionitems',
                                  'beartype.door._func.doorfunc:is_bearable'],
                           extra_assumptions=['object skeletons (class trees, lengths) are enumerated; scalar payloads and the draw are solver variables',
                                              'the recursion-warning clause (self-referential containers) is observed concretely on enumerated cyclic shapes (self, two-container and through-a-tuple cycles over list / deque / dict / OrderedDict / user MutableSequence with 0-3 data siblings): infer_hint must return and warn -- enumeration, not a solver verdict',
                                              'objects whose inferred hint depends on payload values, third-party containers: outside'])


def _c07(prop, tier, seed, jobs, limit):
    from . import c07
    return run_hint_family(prop, tier, seed, jobs, limit, run_case=c07.run_case, cases=c07.cases(tier, seed),
                           funcs=['beartype._check.forward.fwdresolve', 'beartype._check.forward.scope.fwdscopemake',
                                  'beartype._check.forward.scope.fwdscopecls', 'beartype._check.forward.reference.fwdrefproxy',
                                  'beartype._check.forward.reference._cls.fwdrefmeta', 'beartype._check.convert._convcoerce',
                                  'beartype.peps._pep563'],
                           extra_assumptions=['placements (module, method, nested-class method, closure, closure in method), forms '
                                              '(string literal, from __future__ import annotations, name bound after the definition) and '
                                              'hint texts are enumerated; the solver decides equivalence with the evaluated form over all objects and draws',
                                              'forward-reference proxies are resolved through their real __instancecheck__ at encode time',
                                              'the call-before-definition clause is a concrete observation; PEP 649/749 (Python >= 3.14) is outside'])


def _c13(prop, tier, seed, jobs, limit):
    from . import c13

    def post(cov, outs):
        cov['concrete_side_conditions'] = {
            'classes_observed': sum(1 for o in outs if getattr(o, 'side', None)),
            'all_hold': all(not getattr(o, 'side', {}).get('problems') for o in outs),
            'note': 'identity / idempotence / descriptor kind / __wrapped__ / name / doc / signature / inherited members / '
                    'unannotated, @no_type_check and O0 identities are concrete observations, not solver coverage'}
    return run_hint_family(prop, tier, seed, jobs, limit, run_case=c13.run_case, cases=c13.cases(tier, seed), post=post,
                           funcs=['beartype._decor._type.decortype', 'beartype._decor._nontype.decornontype',
                                  'beartype._decor._nontype._builtin.decorbuiltindescriptor', 'beartype._decor.decorcore',
                                  'beartype._util.bear.utilbearfunc', 'beartype._util.func.utilfuncmake:make_func'],
                           extra_assumptions=['classes are generated from one template (plain / class / static method, property getter+setter, nested class, '
                                              'inherited member, dataclass) over enumerated hint pairs and configurations; the solver decides guard equivalence of the two routes for all argument objects and draws',
                                              'metaclass-heavy classes, __slots__ descriptors, enum classes and PEP 557 field checking are outside'])


def _c14(prop, tier, seed, jobs, limit):
    from . import c14
    return run_hint_family(prop, tier, seed, jobs, limit, run_case=c14.run_case, cases=c14.cases(tier, seed),
                           funcs=['beartype._util.cache.utilcachecall', 'beartype._util.cache.utilcacheclear',
                                  'beartype._check.checkmake:make_func_checker', 'beartype.door._cls.doormeta',
                                  'beartype._check.forward.reference._cls.fwdrefmeta', 'beartype._util.func.utilfuncscope'],
                           extra_assumptions=['histories come from a catalogue of adversarial scripts (+ seeded variations): enumerated, not quantified',
                                              'a freshly re-imported copy of the beartype package (empty caches) stands in for a fresh interpreter',
                                              'the checker the public API executes is identified by a profile hook on the generated code object',
                                              'decorated calls, is_subhint / TypeHint comparisons after histories and thread interleavings are outside this check'])


def _simple(prop, tier, seed, jobs, limit):
    return run_hint_family(prop, tier, seed, jobs, limit)


def _c01(prop, tier, seed, jobs, limit):
    """C01 = the hint-family obligations + model validation on beartype's own hint x pith tables."""
    from . import engine_g, c01data
    cases = hint_cases(prop, tier, seed) + c01data.cases(tier, seed)

    def run_case(prop, name, hint, confkw, tier, src):
        if src.get('gen') == 'testdata':
            return c01data.run_case(prop, name, hint, confkw, tier, src)
        return engine_g.run_case(prop, name, hint, confkw, tier, src)
    return run_hint_family(prop, tier, seed, jobs, limit, run_case=run_case, cases=cases,
                           extra_assumptions=["beartype's own hint x pith tables (beartype_test/a00_unit/data/hint/pep/proposal) are pushed "
                                              'through the encoding and the reference semantics every run; a disagreement is a harness error'])


def _c09(prop, tier, seed, jobs, limit):
    from .xh import c09x
    extra = run_engine_x(prop, c09x.specs_c09(tier, seed), jobs) if not limit else None
    # recursive aliases are left out: the cost constant of such a hint is fixed by how deep beartype itself
    # chooses to recurse, which the hint alone (my cut-off after two unrollings) does not determine
    cases = [c for c in hint_cases(prop, tier, seed) if 'ARec' not in c[0]]
    return run_hint_family(prop, tier, seed, jobs, limit, extra=extra, cases=cases,
                           funcs=FUNCS_ENCODED['common'] + ['beartype._check.error._pep.pep484585.errpep484585container',
                                                            'beartype._check.error._pep.pep484585.errpep484585mapping',
                                                            'beartype._check.cls.logic.logcls'])


def _c10(prop, tier, seed, jobs, limit):
    from .xh import c09x
    extra = run_engine_x(prop, c09x.specs_c10(tier, seed), jobs) if not limit else None
    return run_hint_family(prop, tier, seed, jobs, limit, extra=extra,
                           funcs=FUNCS_ENCODED['common'] + ['beartype._check.error._pep.pep484585.errpep484585container',
                                                            'beartype._check.cls.logic.logcls',
                                                            'beartype._data.hint.sign.datahintsignset'])


def _c18(prop, tier, seed, jobs, limit):
    from . import c18
    return run_hint_family(prop, tier, seed, jobs, limit, run_case=c18.run_case, cases=c18.cases(tier, seed),
                           funcs=FUNCS_ENCODED['common'] + ['beartype._conf._confoverrides',
                                                            'beartype._check.convert._reduce.redmain:_reduce_hint_overrides'],
                           extra_assumptions=['hand rewriting is done by bearverif/c18.py:rewrite (independent of beartype)'])


def _c12(prop, tier, seed, jobs, limit):
    from . import c12
    from .xh import c12x
    extra = run_engine_x(prop, c12x.specs(tier, seed), jobs) if not limit else None
    rc = run_hint_family(prop, tier, seed, jobs, limit, run_case=c12.run_case, cases=c12.cases(tier, seed), extra=extra,
                         funcs=['beartype.vale._core._valecore', 'beartype.vale._core._valecorebinary',
                                'beartype.vale._core._valecoreunary', 'beartype.vale._is._valeis',
                                'beartype.vale._is._valeisobj', 'beartype.vale._is._valeisoper',
                                'beartype.vale._is._valeistype', 'beartype.vale._util._valeutilsnip',
                                'beartype._check.code.codemain:make_check_expr'],
                         extra_assumptions=['Is[f]: f is an uninterpreted predicate (value-determined on scalars)',
                                            'attribute names restricted to n, m, k; only UH/UA/UB instances may carry them'])
    return rc


def _c04(prop, tier, seed, jobs, limit):
    from . import c04
    return run_hint_family(
        prop, tier, seed, jobs, limit, run_case=c04.run_case, cases=c04.cases(tier, seed), level='other',
        explanation='Bounded symbolic execution of the real generated wrapper of every enumerated signature '
                    '(<=3 parameters quick, <=4 thorough; every legal kind order x annotated subset x defaults) over a fully '
                    'symbolic call shape: 0..6 positional arguments, keyword presence and values for every parameter name '
                    'and two foreign names, symbolic argument classes, callee result and callee-raises flag. Oracle: '
                    'Python argument binding written from the language reference as z3 terms. Obligations per signature: '
                    'no violation when every bound value fits its own annotation; no call when one misfits; each violation '
                    'names a parameter whose own bound value misfits; result object and callee exception pass through; no '
                    'IndexError/KeyError/unbound name for any shape. sat models are replayed on a real decorated function '
                    'against inspect.signature.bind + isinstance.',
        funcs=['beartype._decor._nontype._wrap._wrapargs', 'beartype._decor._nontype._wrap._wrapreturn',
               'beartype._decor._nontype._wrap.wrapmain', 'beartype._data.check.code.func.datacodefuncwrap',
               'beartype._util.func.arg.utilfuncargiter'],
        extra_assumptions=['> 4 parameters, > 6 positional arguments, keyword names outside the alphabet, parameter names starting __bear are outside the claim',
                           'the callee is modelled as returning an arbitrary object or raising an arbitrary exception'])


RUNNERS = {
    'C04': _c04,
    'C08': _c08,
    'C12': _c12,
    'C13': _c13,
    'C14': _c14,
    'C18': _c18,
    'C01': _c01,
    'C02': _simple,
    'C03': _c03,
    'C06': _c06,
    'C07': _c07,
    'C17': _c17,
    'C19': _c19,
    'C20': _c20,
    'C09': _c09,
    'C10': _c10,
}
