import json,sys
pid=sys.argv[1]
for l in open('/verif/properties.jsonl'):
    p=json.loads(l)
    if p['id']==pid:
        break
print(f'''You are helping to evaluate a verification framework for the Python library `beartype` (a runtime type checker). Your job is to act as a careful "bug seeder": produce ONE realistic source change to beartype that BREAKS the semantic property stated below, while the library still imports, and the existing test suite still passes. Your work is independent: do NOT look at anything under /verif, and do not touch /repo.

Your private scratch git worktree of the beartype repository is at /tmp/seed_{pid} (already created; work ONLY there). Python: /venv/bin/python (3.12). To make Python import YOUR copy of beartype, run things with the working directory set to /tmp/seed_{pid} or with PYTHONPATH=/tmp/seed_{pid}; always verify with `python -c "import beartype; print(beartype.__file__)"` that the path printed is under /tmp/seed_{pid}.

THE PROPERTY ({p['id']}: {p['title']})
Statement: {p['statement']}
Quantifier: {p['quantifier']['text']}
Code anchors (where the mechanism lives): {json.dumps(p['anchors']['files'])}
Mechanisms: {json.dumps(p['anchors']['mechanism'])}

WHAT TO PRODUCE
1. A change to the beartype package sources (files under /tmp/seed_{pid}/beartype/, never the tests) that makes the property FALSE for some inputs, yet looks like a plausible maintenance edit (an "optimisation", refactoring slip, off-by-one, wrong variable, dropped guard, swapped branch, wrong cache key, etc.). It must be SUBTLE: it must need something specific to manifest — an unusual input, a particular sampler draw / container length / position, a particular combination of hint features or nesting, a multi-step sequence of operations, or two cooperating code sites that each look fine alone — NOT something that ordinary use or the simplest example would expose at once.
2. The existing test suite must still pass with your change. The reference command is:
   cd /tmp/seed_{pid} && /venv/bin/python -m pytest -ra -q -p no:cacheprovider --timeout=900 --continue-on-collection-errors -x -q beartype_test 2>&1 | tail -30
   NOTE: in this sandbox exactly these 15 tests ALWAYS fail even on the unmodified tree (ignore them; do not use -x if it stops on them — better run without -x): test_is_hint_pep585_builtin, test_get_hint_pep_sign, test_is_hint_pep_type_typing, test_reduce_hint_api_numpy, test_reduce_hint_ignorable, test_beartype, test_beartype_warnings, test_door_die_if_unbearable, test_door_die_if_unbearable_warnings, test_door_is_bearable, test_door_is_bearable_warnings, test_door_typehint_die_if_unbearable, test_door_typehint_is_bearable, test_claw_fastmcp, test_poetry. Every other test that passes on the unmodified tree (422 of them) must still pass. A full run takes about 5 minutes; you may first run the most relevant test subdirectories, but do one full run at the end and report the pass/fail counts.
3. A demonstration program /tmp/seed_{pid}/SEED/demo.py that uses only beartype's PUBLIC API (plus, if the property is about sampler draws, it may pin the draw by doing `import random; random.getrandbits = lambda n: <value>` BEFORE importing beartype), exits with status 0 on the UNMODIFIED tree and exits non-zero (assertion failure) on your MODIFIED tree. Run it both ways (use ``git diff -- beartype > /tmp/seed_{pid}.patch; git checkout -- beartype; ...; git apply /tmp/seed_{pid}.patch` inside your worktree; do NOT use `git stash`, which is shared between worktrees) and show both results.
4. Save into /tmp/seed_{pid}/SEED/: patch.diff (output of `git -C /tmp/seed_{pid} diff -- beartype`), demo.py, and notes.md (which property it breaks and how, what exactly is needed for the breakage to manifest, what you ran and the results, including the final test-suite counts).

Leave the worktree with your change APPLIED at the end (and the SEED directory present). Do not commit. Do not create other worktrees. Be efficient: read the anchored files first, pick one good change, verify, and finish. In your final answer, summarise the change, what it needs to manifest, and the verification results.''')
