#!/bin/bash
# usage: confirm_seed.sh <seed_dir containing patch.diff and demo.py> [--tests]
# Confirms in a fresh scratch worktree: demo passes without the patch, fails with it,
# and (with --tests) the pinned test-suite still has exactly the 15 always-failing tests.
S="$1"; D=$(mktemp -d /tmp/bearconf.XXXXXX); rmdir "$D"
git -C /repo worktree add -q --detach "$D" HEAD || exit 9
cd "$D"
mkdir -p SEED && cp "$S/demo.py" SEED/demo.py
PYTHONPATH="$D" /venv/bin/python SEED/demo.py > /tmp/confirm_clean.$$ 2>&1; RC0=$?
git apply "$S/patch.diff" || { echo "PATCH DOES NOT APPLY"; cd /; git -C /repo worktree remove --force "$D"; exit 9; }
PYTHONPATH="$D" /venv/bin/python SEED/demo.py > /tmp/confirm_patched.$$ 2>&1; RC1=$?
echo "demo: unpatched rc=$RC0, patched rc=$RC1"
tail -3 /tmp/confirm_patched.$$
if [ "$2" = "--tests" ]; then
  /venv/bin/python -m pytest -q -p no:cacheprovider --timeout=900 --continue-on-collection-errors beartype_test 2>&1 | tail -3
fi
rm -f /tmp/confirm_clean.$$ /tmp/confirm_patched.$$
cd /; git -C /repo worktree remove --force "$D"
