#!/bin/bash
# usage: with_mutant.sh <patch-or-sed-script> -- <command...>
# Creates a scratch worktree of /repo outside /repo and /verif, applies the change, runs the
# command with VERIF_REPO pointing at it, removes the worktree.
set -u
CHANGE="$1"; shift; shift
[ -f "$CHANGE" ] && CHANGE=$(readlink -f "$CHANGE")
D=$(mktemp -d /tmp/bearmut.XXXXXX)
rmdir "$D"
git -C /repo worktree add -q --detach "$D" HEAD || exit 9
if [ -f "$CHANGE" ] && head -1 "$CHANGE" | grep -q '^diff\|^---\|^From'; then
  git -C "$D" apply "$CHANGE" || { git -C /repo worktree remove --force "$D"; exit 9; }
else
  ( cd "$D" && bash -c "$CHANGE" ) || { git -C /repo worktree remove --force "$D"; exit 9; }
fi
VERIF_REPO="$D" "$@"
RC=$?
git -C /repo worktree remove --force "$D"
exit $RC
