#!/usr/bin/env python3
"""Regenerates /verif/MANIFEST.json from the tables below (kept next to the code so the
manifest stays valid and current)."""
import json
import os

ROOT = os.path.dirname(os.path.dirname(os.path.abspath(__file__)))
PY = '/verif/.venv/bin/python'

G_NOTE = ('Trusted base: the object universe and reference semantics of DESIGN.md section 2 (bearverif/universe.py, '
          'refsem.py), the AST->z3 translator (validated every run against the real generated functions on concrete '
          'objects), z3 5.1. Enumerated, not solver-covered: the hint grammar G(d) and the configuration list. '
          'Bounded mode: container length <= 4/3 (quick) or 6/4/3 (thorough) per hint depth; unbounded mode '
          '(arbitrary lengths) is reported separately and only its unsat answers are trusted.')

CHECKS = [
    dict(id='C01', engine='G', cat='translation_validation', ref='4/C01',
         technique='SMT (z3) over the AST of the really generated checker/wrapper code vs reference semantics; symbolic object + 32-bit draw',
         text='For every enumerated (hint, configuration) the four programs beartype really generates (is_bearable tester, '
              'die_if_unbearable raiser, decorated parameter and return sections) are translated from their AST to z3 and '
              'the solver shows that no object of the universe that conforms at full depth and no 32-bit draw makes any of '
              'them reject or raise a non-violation exception (index, key, unbound walrus, zero modulus). Bounded '
              'verdicts are exact and replayed; the unbounded-length verdict (unsat for containers of any length) is '
              'reported per obligation.'),
    dict(id='C02', engine='G', cat='translation_validation', ref='4/C02',
         technique='SMT (z3) over the generated code: must-reject predicate MR[H], documented sampling strategy S_r[H], per-index reachability with witness draw',
         text='Same encoding as C01; obligations: MR[H](x) & code(x,r) unsat (guaranteed detection on every draw), '
              'code(x,r) & ~S_r[H](x) unsat (an accepted object is consistent with the documented O(1) strategy), and for '
              'sequence hints item i in MR & r=i & code unsat (every index reachable; index 0 with is_random=False), '
              'plus spec-level lemmas guarding against vacuity.'),
    dict(id='C03', engine='G', cat='translation_validation', ref='4/C03',
         technique='SMT equivalence (XOR unsat) of the four generated guards + symbolic execution of raiser/wrapper statements',
         text='Part A of DESIGN C03: tester, raiser guard, parameter guard and return guard are pairwise equivalent for all '
              'objects and draws; on the rejecting path exactly one get_violation call receives the same draw and the '
              'checked object and is followed by raise (or warn for Warning classes) under the same path condition.'),
    dict(id='C12', engine='G', cat='translation_validation', ref='4/C12',
         technique='SMT equivalence (XOR unsat) between the inline code generated for Annotated[T, V...] and the boolean meaning of the validator expression tree',
         text='Engine G part of DESIGN C12: for every enumerated validator expression over Is/IsAttr/IsEqual/IsInstance/IsSubclass '
              'with & | ~ (exhaustive to operator depth 1 quick / 2 thorough plus seeded deeper trees) the four generated guards '
              'are equivalent to the meaning built from the tree, for all objects, with Is[f] uninterpreted and IsAttr modelled by '
              'hasattr/attr (objects lacking the attribute, non-class objects for IsSubclass included); walrus-temporary '
              'collisions surface as unbound/aliased-name side conditions. The is_valid-callable and diagnosis clauses '
              '(Engine X) are not yet part of this check.'),
    dict(id='C18', engine='G', cat='translation_validation', ref='4/C18',
         technique='SMT equivalence (XOR unsat) of code generated under the rewriting configuration vs code generated for the hand-rewritten hint',
         text='For hints containing float/complex (is_pep484_tower) or an overridden hint (hint_overrides, 11 override sets) the '
              'tester, raiser, parameter and return guards generated under the option are equivalent, for all objects and draws, to '
              'those generated under the default configuration for the hint rewritten by an independent rewriter; the '
              'violation_* options leave every guard equivalent to the default one. Counter[T] with an override of int is '
              'outside the claim (implicit value hint).'),
    dict(id='C04', engine='G', cat='other', ref='4/C04',
         technique='bounded symbolic execution (z3) of the generated wrapper statements over a symbolic call shape vs a z3 model of Python argument binding',
         note='Trusted base: the statement-level symbolic executor (bearverif/symstmt.py), the z3 transcription of Python '
              'argument binding (c04.reference_bind, written from the language reference), the class universe. Bounds: <= 3 '
              'parameters quick / <= 4 thorough, <= 6 positional arguments, keyword names = parameter names + 2 foreign names; '
              'signatures are enumerated (every legal kind order x annotated subset x default pattern, plus variants in which one '
              'parameter carries an annotation beartype ignores -- object / Any -- so that position and number of checked parameters differ), call shapes, argument '
              'classes, callee result and callee-raises are solver variables. sat models are replayed on a real decorated '
              'function against inspect.signature.bind + isinstance.',
         text='For each enumerated signature the real wrapper is executed symbolically and the solver shows, for every call '
              'shape within the bounds: no parameter violation when every bound value fits its own annotation (so nothing is '
              'checked against a foreign annotation and unpassed defaults stay unchecked); the original is not called when a bound '
              'value misfits; each violation names a parameter whose own bound value misfits; the original is called once with '
              '*args/**kwargs unchanged; its result object or exception comes back unchanged; no IndexError/KeyError/unbound '
              'name is reachable for binding or non-binding shapes.'),
    dict(id='C06', engine='P', cat='model_checking', ref='4/C06',
         technique='forking z3-backed string proxies through the real claw registry code; per-path entailment (unsat) of the declarative nearest-ancestor model',
         note='Trusted base: bearverif/proxy.py (str-subclass proxies with constant hash and z3-backed equality, depth-first re-execution), '
              'the declarative model c06.Model (written from the property), z3. Enumerated: history skeletons (<= 2 operations quick / <= 3 '
              'thorough from package / packages / all / skip, plus beartyping blocks incl. nested), label counts per name (1-2 / 1-3) and 3 '
              'concrete pairwise-different configurations. Solver variables: every label of every registered and queried name, i.e. every '
              'aliasing pattern. make_package_names_from_args is replaced by a pass-through (identifier syntax is outside the claim); skip '
              'lists are driven through _blacklist_packages. The built-in exclusion is covered through one representative (the package beartype itself, a label constant any symbolic label may alias). Violations are replayed with concrete names through the public beartype.claw API.',
         text='For each enumerated history skeleton the real registry functions run on symbolic names; on every feasible aliasing path '
              'the path condition must entail: each registration raises BeartypeClawHookException iff the model says it conflicts (and a '
              'raising call leaves every later query unchanged), the final get_package_conf_or_none equals the nearest registered '
              'ancestor, else beartype_all, unless a skipped prefix applies, and after a beartyping block the previous answer and the '
              'path-hook presence are restored.'),
    dict(id='C08', engine='X', cat='other', ref='8.7',
         technique='CrossHair symbolic execution of the real decorated coroutine / generator / asynchronous generator against the undecorated original under symbolic inner and driver scripts (bounded trace equivalence)',
         note='Trusted base: CrossHair 0.0.110 + z3, CPython\'s generator protocol (executed, not modelled), the scripted originals and drivers of '
              'bearverif/xh/c08x.py. Bounds: inner script of 2 actions (yield|suspend / return / raise with an int payload in [-1,3], 3 = a non-int '
              'return value; asynchronous generators additionally with or without an awaiting clean-up in `finally`), driver script of 2 '
              'operations out of next|send(v)|throw(E(v))|close (async forms; step / throw / close for coroutines) plus a final close; thorough: '
              '3x2 and 2x3 scripts, two more configurations, the return annotations Generator / Iterator / Iterable (and their asynchronous forms), int / '
              'Optional[int], and the callable as plain function, method or static method of a class decorated as a whole. Outside: longer '
              'histories, other annotations, originals that yield while handling GeneratorExit (the property\'s proviso), real event loops, '
              'cancellation, keyword / extra parameters (C04 covers parameter passing for synchronous callables).',
         text='Every harness must come back "Confirmed over all paths" with a refuted reachability twin: for all scripts within the bounds the '
              'caller-visible trace (kind of object produced, yielded values, StopIteration values, exception classes and arguments, suspensions) '
              'and the body-visible trace (values sent in, exceptions caught, GeneratorExit, finalisation, asynchronous clean-up, interleaved with '
              'the caller\'s operations) of the decorated callable equal those of the original, a non-int coroutine result surfaces as the '
              'configured return violation, and inspect reports the same callable kind.'),
    dict(id='C17', engine='X', cat='other', ref='4/C17',
         technique='CrossHair symbolic execution of the real BeartypeConf.__new__/__eq__/__hash__/kwargs over creation histories with symbolic option values',
         note='Trusted base: CrossHair 0.0.110 + z3, the documented per-option validity predicate (c17x.valid), harness hygiene of DESIGN 1.2 '
              '(short-circuiting off, memo table emptied at the start and end of every path). Bounds: option values bool / int in [-1,2] / '
              'None for boolean and tri-state options, every enum member + 3 non-members, 5 valid/invalid classes; histories of 2 creations '
              '(3 for single options); which options vary is enumerated (3 singles, 2 pairs, enum and class options quick; all singles, all '
              'pairs, triples thorough); claw_skip_package_names / hint_overrides / the violation_type quadruple range over menus of valid and '
              'invalid values picked by a symbolic index; is_pep484_tower also together with overrides repeating or contradicting the tower. '
              'Stub: FrozenDict.__or__ runs untraced. Outside: float look-alikes (0.0, 1.0), NumPy booleans, threads.',
         text='Every harness must come back "Confirmed over all paths" with a refuted reachability twin: a creation raises '
              'BeartypeConfParamException iff the documented validity predicate fails, independently of earlier creations, and nothing '
              'else escapes; typed-equal kwargs in any order give the identical object, differing ones unequal objects, hash agrees with '
              '==, options read back, BeartypeConf(**conf.kwargs) is conf.'),
    dict(id='C19', engine='G', cat='translation_validation', ref='4/C19',
         technique='SMT (z3): for every pair the real is_subhint answers True, unsat of [[A]](x) and not [[B]](x) over the object universe at full depth',
         text='Soundness clause only (partial claim): the real is_subhint is evaluated on every ordered pair of an enumerated hint pool '
              '(230 hints quick, ~500 thorough; Any excluded as the property says) and each True answer is discharged by the solver '
              'over all objects of the universe (container length <= 3, full depth); a sat model is a concrete object fully satisfying A '
              'and violating B, replayed with an independent deep walker and beartype itself. Reflexivity, transitivity and TypeHint '
              'coherence are concrete side conditions reported in evidence, not solver coverage.'),
    dict(id='C20', engine='G', cat='translation_validation', ref='4/C20',
         technique='SMT (z3): for every enumerated object skeleton, unsat of shape(x) and not code_H(x,r) with H = real infer_hint(representative), all scalar payloads and draws symbolic',
         text='Partial claim: object skeletons (class trees of depth <= 3, width <= 3 over ~45 universe classes incl. views, ranges, '
              'user Sequence/Mapping/Set/Collection/iterables, class objects, enum members) are enumerated; for each the real infer_hint '
              'runs on a representative, the checker code beartype generates for the inferred hint is translated, and the solver '
              'shows that every object of that shape is accepted for every draw and payload and satisfies the inferred hint at full '
              'depth. The recursion-warning clause is not claimed.'),
    dict(id='C07', engine='G', cat='translation_validation', ref='4/C07',
         technique='SMT equivalence (XOR unsat) between the wrapper generated for a string / postponed / defined-later annotation and the wrapper for the evaluated annotation',
         text='Partial claim: for each enumerated (hint text x placement in {module, method, nested-class method, closure, closure in a method} '
              'x form in {string literal, from __future__ import annotations, name defined after the callable}) a module is written and '
              'imported with the real decorator; both wrappers are captured, forward-reference proxies are resolved through their real '
              '__instancecheck__, and the solver shows the parameter and return guards equivalent to those of the evaluated form for all '
              'objects and draws. The call-before-definition clause (forward-reference exception, usable once defined) is driven '
              'concretely for module and closure placements.'),
    dict(id='C13', engine='G', cat='translation_validation', ref='4/C13',
         technique='SMT equivalence (XOR unsat) of the wrappers generated by decorating a class vs decorating each of its members by hand',
         text='Partial claim: for classes generated from one template (plain, class and static methods, property getter and setter, nested '
              'class, inherited member, dataclass) over enumerated hint pairs and configurations, the wrappers of both routes are captured '
              'and their parameter and return guards proved equivalent for all argument objects and draws (self / cls positions included). '
              'Identity / idempotence / descriptor kind / __wrapped__ / name / doc / signature / inherited members / no-op identities are '
              'concrete side conditions asserted on the same classes and labelled as such in evidence.'),
    dict(id='C14', engine='G', cat='translation_validation', ref='4/C14',
         technique='SMT equivalence (XOR unsat) between the checker the API executes after an adversarial history and the checker a freshly imported beartype generates',
         text='Partial claim ("cached and first-time answers are identical" for door checks): each history script of a catalogue (hash-equal '
              'unions, Literal look-alikes, Annotated look-alikes, same-named class redefined, hint dropped and its id() reused, '
              'clear_caches() mid-way, a forward reference that fails first, a failing hint first, similar containers; seeded variations) '
              'is run for real; the generated function the public API then executes for the target is identified by a profile hook and '
              'proved equivalent, for all objects and draws, to the one generated by a re-imported copy of beartype with empty caches, '
              'and to still accept every conforming object.'),
    dict(id='C09', engine='G', cat='translation_validation', ref='4/C09',
         technique='SMT (z3) cost term over item-reading AST nodes with unbounded symbolic container length',
         text='Fast path: the translator attaches a cost to every item read (x[i], next(iter(x)), mapping lookups; len for '
              'any linear builtin; full materialisations such as list(x), tuple(x), [*x], [*x.values()] are modelled as a scan of weight '
              'len(x) whose copy stays indexable); cost(x,r) > K(H) is unsat with len(x) an unconstrained non-negative integer, and '
              'non-collection iterables are never read.'),
    dict(id='C10', engine='G', cat='translation_validation', ref='4/C10',
         technique='SMT (z3) effect predicates (consume one-shot iterator, defaultdict insertion, mutating call) over the generated code',
         text='Fast path: no reachable next() on a one-shot iterator, no x[k] on a defaultdict with k absent, no mutating '
              'method call, for all objects and draws; the wrapper calls the original with the identical *args/**kwargs.'),
]

NOT_APPLICABLE = [
    ('C05', 'quantifier over syntactically valid programs; the AST transformer only copies syntax, so there is no theory for a solver to decide and every path is one enumerated program; CrossHair realises at compile()'),
    ('C11', 'quantifier over arbitrary typing object graphs used as hints: no symbolic representation exists (typing hashes/realises any symbolic component); the decidable pass-through clause is claimed under C04'),
    ('C15', 'quantifier over thread schedules at bytecode granularity: no engine here models Python threads; a hand-written transition system would verify a model, not the code'),
    ('C16', 'state is on-disk bytecode across interpreter runs plus a process-global monkey-patch during get_code: pure I/O and process history, realised immediately by symbolic execution'),
]

PENDING = [
]


def main():
    claimed = {c['id'] for c in CHECKS}
    checks = []
    for c in CHECKS:
        checks.append({
            'property_id': c['id'],
            'quick_cmd': c.get('quick', f'{PY} -m bearverif check {c["id"]} --tier quick'),
            'thorough_cmd': c.get('thorough', f'{PY} -m bearverif check {c["id"]} --tier thorough'),
            'evidence_file': f'/verif/evidence/{c["id"]}.json',
            'replay_cmd_template': f'{PY} -m bearverif replay {{path}}',
            'engine': c['engine'],
            'level_claimed': {'category': c['cat'], 'text': c['text'], 'design_ref': c['ref']},
            'level_note': c.get('note', G_NOTE),
            'technique': c['technique'],
        })
    na = [{'property_id': i, 'reason': r} for i, r in NOT_APPLICABLE + PENDING if i not in claimed]
    doc = {
        'version': 1,
        'setup_cmd': 'bash /verif/setup.sh',
        'hooks': {
            'guard': 'BEARTYPE_VERIF',
            'enable': 'no source hooks are needed: the harness captures generated code by swapping make_func.__code__ at run time and pins random.getrandbits before importing beartype; checks import beartype from VERIF_REPO (default /repo)',
            'baseline_off_cmd': 'cd /repo && /venv/bin/python -m pytest -ra -q -p no:cacheprovider --timeout=900 --continue-on-collection-errors',
            'source_commits': [],
            'add_only': True,
        },
        'engines': [
            {'name': 'G', 'path': '/verif/bearverif/sym.py', 'serves_properties': ['C01', 'C02', 'C03', 'C04', 'C07', 'C09', 'C10', 'C12', 'C13', 'C14', 'C18', 'C19', 'C20'],
             'kind_free_text': 'AST of the code beartype really generates -> z3 over a symbolic Python-object universe (unbounded container lengths); models replayed against the public API'},
            {'name': 'X', 'path': '/verif/bearverif/xh', 'serves_properties': ['C03', 'C08', 'C09', 'C10', 'C12', 'C17'],
             'kind_free_text': 'CrossHair 0.0.110 symbolic execution of the real functions (error path, BeartypeConf.__new__, validators, wrapped coroutines / generators)'},
            {'name': 'P', 'path': '/verif/bearverif/proxy.py', 'serves_properties': ['C06'],
             'kind_free_text': 'forking z3-backed str proxies driven through the real claw package-trie code'},
        ],
        'checks': checks,
        'not_applicable': na,
        'notes': 'See /verif/DESIGN.md. Exit codes: 0 held, 1 VIOLATION (replayed), 2 inconclusive / harness error.',
    }
    with open(os.path.join(ROOT, 'MANIFEST.json'), 'w') as f:
        json.dump(doc, f, indent=1)
    print('MANIFEST.json written:', len(checks), 'checks,', len(na), 'not_applicable')


if __name__ == '__main__':
    main()
